#!/usr/bin/env python3
"""Regenerates /verif/MANIFEST.json from the table below (run after adding a check)."""
import json
import os

ROOT = os.path.dirname(os.path.abspath(__file__))

# id -> (technique, level text, level note)
CLAIMED = {
    "C01": ("property-based testing (rapid) + deterministic structured grid; oracle = independent CashAddr/Base58Check "
            "reference encoder pinned to spec vectors + decode round-trip of every rendering",
            "Generated-input search over (address kind x network x payload) with a structured-hash grid for every kind x net "
            "cell and a directed search for public keys whose hex lies inside the CashAddr alphabet; each case is compared with a "
            "reference encoder written from the specification, round-tripped through DecodeAddress in four renderings, re-checked "
            "after SetFormat, through the typed payload accessors, after the caller changed an earlier decoding result, and batches "
            "of cases are evaluated concurrently (state shared between calls).",
            "Trusts crypto/sha256, x/crypto/ripemd160 and bchec point multiplication (used to make valid public keys). "
            "Sampling: 2^160 / 2^256 hashes are not enumerated."),
    "C02": ("property-based testing (rapid) with constructive generators (valid checksum over arbitrary 5-bit payloads, "
            "Base58Check over all version bytes, hostile public-key hex); oracle = strict reference acceptor + canonical "
            "re-encoding + network membership table",
            "Generated-input search: every string is decoded on all six networks plus three custom networks (two with crosswise "
            "colliding legacy ids); acceptance must imply canonical re-encoding, agreement with a strict reference acceptor written from the "
            "CashAddr/Base58Check/SEC1 rules, and correct IsForNet; a version-byte x length grid; alias sweeps (every position of "
            "a valid string x every byte/rune alias, white space and junk around / inside it); valid and corrupted strings "
            "decoded concurrently.",
            "Only accept => conditions are asserted (completeness is C01). Trusts math/big and crypto/sha256."),
    "C03": ("exhaustive small-scope enumeration in syndrome space (meet-in-the-middle over the implementation's own remainder "
            "function, exported by a build-tag hook) justified by a rapid-sampled metamorphic law (affine linearity), plus "
            "property-based substitution tests against the decoders",
            "All error patterns of weight <=4 on the 112-symbol CashAddr window and the 88-symbol bech32 window, and all weight-5 "
            "patterns on the 61-symbol (quick) / 112-symbol (thorough) CashAddr window, are enumerated completely in syndrome "
            "space; concrete corrupted strings (every single substitution by every byte value, random 2..5 substitutions) are "
            "checked against the decoders (DecodeCashAddress, DecodeAddress with explicit prefix, bech32.Decode) and the reference. "
            "The decoders' acceptance sets are probed directly (remainder differences of low bit weight, cross-prefix constants, "
            "the bech32m constant; all 2^30 bech32 remainders in the thorough tier) and every extra accepted remainder becomes a "
            "target of the syndrome search. Constructed few-letter strings with every subset of their letters in the other case.",
            "Completeness of the enumeration rests on the affine-linearity law, which is sampled (and checked completely for "
            "single-symbol errors on the zero codeword). Without the hook files the enumeration runs on reference arithmetic."),
    "C04": ("property-based testing (rapid) with reference-directed search for rare cases (children with leading-zero scalars); "
            "oracle = independent BIP32 implementation pinned to BIP32 vectors 1 and 3",
            "Generated (seed, network incl. one registered late, path) cases incl. boundary indices, depth-255 paths, SetNet; every "
            "node compared field by field with an independent implementation, private, neutered and publicly derived; neutered keys "
            "and child derivation re-checked after the caller changed earlier results / derived other children first.",
            "Shares bchec point multiplication/addition with the implementation; stdlib HMAC/SHA. ErrInvalidChild branches are unreachable."),
    "C05": ("property-based testing (rapid) with constructive generators (recomputed checksums over adversarial payloads, exhaustive "
            "single-bit flips); oracle = strict reference validator + re-serialisation identity + BIP32 children of parsed fields",
            "Generated keys and hostile strings (incl. alias sweeps and junk around valid strings); implementation and reference "
            "validator must agree on acceptance of every string.",
            "Reference Base58/BIP32 pinned to published vectors; bchec point arithmetic."),
    "C06": ("property-based testing (rapid): round-trip against a reference WIF codec and hostile payloads with recomputed checksums "
            "and exhaustive bit flips",
            "Generated scalars (boundaries, forced leading zero bytes) x compression x networks; hostile strings (incl. alias "
            "sweeps, junk around valid strings) judged by a reference shape predicate; decoded keys are the caller's.",
            "bchec scalar multiplication provides the expected public point; acceptance of scalars 0 / >= n is not asserted."),
    "C08": ("property-based testing (rapid) with structured-then-mutated generators per entry point (valid outer layer, degenerate inner "
            "content) and a resource oracle: no panic, no repeated >10 s call, bytes allocated <= 2 MiB + 8 KiB per input byte",
            "Generated hostile inputs for every parsing entry point named in the statement, incl. constructed CashAddr strings with a "
            "valid checksum over <8 symbols, empty filter-loads, declared-count GCS/wire inputs, heterogeneous and deeply nested JSON, "
            "layered spend-graph blocks (scan time), merkle builders on parsed blocks, filter re-loads racing with matches; hangs (90 s watchdog) and out-of-memory "
            "process deaths are attributed to the saved current case. Thorough tier adds native go fuzzing of six targets.",
            "Termination 'at most quadratic' is only checked as 'no hang'; allocation inside bchd's wire decoder is a listed known "
            "finding (wire-prealloc) with a bounded allowance."),
    "C09": ("property-based testing (rapid), stateful: generated op sequences run in lock-step with an independent BIP37 model "
            "(own MurmurHash3 pinned to Bitcoin Core vectors), bit-for-bit comparison after every step",
            "Generated (filter size, k, tweak, flags) x Add/AddHash/AddOutPoint/Matches/MatchesOutPoint/Unload/Reload sequences; "
            "MurmurHash3 differential; NewFilter sizing bounds over hostile arguments; sibling filters and one shared caller buffer.",
            "Empty filters are outside the statement's range (covered by C08). Sampling only."),
    "C10": ("property-based testing (rapid) over a script grammar and random intra-block spend DAGs with permutations; oracles = "
            "BIP37 IsRelevantAndUpdate on an independent bloom model (exact answer and bits) and exact-set least fixpoint / final-"
            "filter bounds for block scans",
            "Generated transactions/blocks (all script classes, unparsable scripts, empty pushes), three update flags, topological / "
            "reverse / CTOR / random orders; directed spend chains (up to 90 links) whose links become relevant only through their "
            "parent, relevant outputs at indices up to 65536, coinbase-style inputs.",
            "txscript.PushedData/GetScriptClass (bchd) define pushes and classes; pushes of length 36 are excluded."),
    "C11": ("exhaustive small-scope enumeration (all subsets for n<=10 quick / 15 thorough; structured subsets for n=1..65) + rapid for "
            "n up to 4000; oracle = independent partial-merkle-tree builder/extractor and merkle root",
            "Every generated (n, subset) is built by the library (hash-set and both filter-driven builders), compared with the "
            "canonical BIP37 tree built independently, and extracted by the implementation and the reference; one block of "
            "16667..65537 (thorough ..500000) transactions per shard.",
            "crypto/sha256; filter-induced subsets computed with the C09 bloom model."),
    "C12": ("exhaustive small-scope enumeration (counts {0..7,cap,cap+1,2^32-1} x hash lists over a 3-symbol alphabet x flag strings) + "
            "rapid mutation of honest proofs; oracle = independent functional extractor with every rejection rule",
            "Implementation and reference must agree on accept/reject for every message and on root/matches/positions when accepting; "
            "each rejection reason is required to occur.",
            "Transaction-count cap computed independently (MaxBlockPayload/61); nil hash pointers not generated."),
    "C13": ("property-based testing (rapid) with a directed generator that searches 2^18 candidates for low-32-bit collisions of "
            "reduced hashes; oracle = exact set semantics on own SipHash-2-4 + bits.Mul64 reduction",
            "Generated keys, P 0..32, M, multisets up to 2000/20000 items and query sets below/above N/2; all four query strategies "
            "compared with exact set membership; sets of about 2^16 members; two members congruent modulo 2^32; call histories.",
            "SipHash reference pinned to the paper's vectors and cross-checked against aead/siphash."),
    "C14": ("property-based testing (rapid) against an independent Golomb-Rice encoder / CompactSize serialiser / dSHA256, incl. forced "
            "carry-path parameters; builder chains and block/mempool filter construction",
            "Generated filters, blocks and builder chains (all constructors and setters); bytes, serialisations, rebuilt filters, "
            "filter hash and header compared with the reference.",
            "crypto/sha256; SipHash reference as in C13."),
    "C15": ("property-based testing (rapid), stateful histories over a pool of keys with a per-identity model key (independent BIP32) "
            "and reflection-captured buffers for Zero",
            "Generated histories of NewMaster/NewKeyFromString/NewExtendedKey/Child/Neuter/SetNet/Zero/observers; every live key "
            "re-observed after every step; zeroed keys must stay zeroed under later operations.",
            "reflect+unsafe read of four private fields (rename = harness error)."),
    "C16": ("property-based testing (rapid), stateful accessor histories over generated blocks/transactions x 4 constructors; oracle = "
            "fresh recomputation from the wire message, pointer identity, re-parse",
            "Generated blocks (0..40 and 250..260 txs, token data), four reader types whose storage is overwritten afterwards, "
            "accessor interleavings incl. out-of-range and 64-bit indices.",
            "bchd wire serialisation/hashing is the definition of 'fresh computation'; only blocks bchd round-trips byte-for-byte."),
    "C17": ("property-based testing (rapid) with boundary-directed float/integer generators; oracle = exact arithmetic in math/big",
            "Generated floats (decimal grid +- ulps, ties, products at 0.5 / odd >= 2^52, random bit patterns, specials), integers up "
            "to 2.1e15, units -12..12, multipliers.",
            "No FMA fusion (amd64, checked at run time)."),
    "C18": ("exhaustive small-scope enumeration (all arrangements of <=6 inputs over 6 keys, <=4/5 outputs over 15 keys) + rapid up to "
            "300 inputs/outputs; oracle = reference BIP69 comparator, multiset equality, untouched original",
            "Every generated transaction: Sort/InPlaceSort/IsSorted checked against the reference comparator, permutation and "
            "non-destructiveness; Sort(tx) and InPlaceSort(copy) must serialise identically.",
            "Which order entries with equal keys end up in is not prescribed, only that both functions agree."),
    "C19": ("property-based testing (rapid): validity predicates per selector, exact reference for the prefix selectors, list model for "
            "CoinSet histories",
            "Generated coin lists (ties, zeros), targets, MaxInputs, MinChange, MinAvg for all four selectors; push/pop/shift "
            "histories; the library's SimpleCoin over several outputs of one transaction.",
            "MinPriority is not required to find a selection whenever one exists."),
    "C20": ("generated concurrent programs executed repeatedly under the Go race detector, with porcupine linearizability checking "
            "against the sequential BIP37 model and post-join invariants",
            "Exploration of the interleavings that occur in repeated executions of generated programs (2..32 goroutines); race "
            "detector + linearizability + no-lost-update + read-your-write + cold-message + load-state-agreement invariants; "
            "a bystander filter next to every program; lockstep rounds (persistent workers, one operation per round, views compared "
            "in the quiet state); GCS filters (built, re-parsed, never-queried, inflated N) queried concurrently.",
            "The harness does not own the scheduler; the static 'all paths' part of the statement is not decided."),
    "C07": ("property-based testing (rapid) + exhaustive small-scope enumeration against independent "
            "reference codecs (long-division Base58, BIP173 reference, bit-stream model) and an argument-purity canary",
            "Generated-input search: exhaustive over byte strings <=2 / alphabet strings <=3 / all byte strings <=2 (3 thorough), "
            "random beyond; every case compared with an independent reference implementation pinned to published vectors.",
            "Trusts crypto/sha256; absence of counterexamples is shown only for the enumerated scopes and sampled cases."),
}

NOT_YET = "check not built yet in this revision of /verif (work in progress; see DESIGN.md section 4)"


def main():
    props = [json.loads(l) for l in open(os.path.join(ROOT, "properties.jsonl"))]
    checks, na = [], []
    for p in props:
        pid = p["id"]
        if pid in CLAIMED:
            tech, text, note = CLAIMED[pid]
            checks.append({
                "property_id": pid,
                "quick_cmd": "./check %s --tier quick" % pid,
                "thorough_cmd": "./check %s --tier thorough" % pid,
                "evidence_file": "/verif/evidence/%s.json" % pid,
                "replay_cmd_template": "./check %s --replay {path}" % pid,
                "engine": "harness",
                "level_claimed": {"category": "exploration", "text": text,
                                  "design_ref": "DESIGN.md section 4, " + pid},
                "level_note": note,
                "technique": tech,
            })
        else:
            na.append({"property_id": pid, "reason": NOT_YET})
    hooks_commits = []
    hc = os.path.join(ROOT, "HOOK_COMMITS.txt")
    if os.path.exists(hc):
        hooks_commits = [l.split()[0] for l in open(hc) if l.strip() and not l.startswith("#")]
    m = {
        "version": 1,
        "setup_cmd": "./check --build",
        "hooks": {
            "guard": "verif",
            "enable": "go build tag: the driver builds the harness test binary with `-tags verif` "
                      "(harness module replaces github.com/gcash/bchutil with /repo)",
            "baseline_off_cmd": "cd /repo && GOFLAGS=-mod=mod go test -json -vet=off -count=1 -timeout 25m ./...",
            "source_commits": hooks_commits,
            "add_only": True,
        },
        "engines": [{
            "name": "harness",
            "path": "/verif/harness",
            "serves_properties": sorted(CLAIMED),
            "kind_free_text": "Go test binary: pgregory.net/rapid v1.3.0 property-based tests, exhaustive small-scope "
                              "enumeration loops, native go fuzzing (thorough), reference models written from the "
                              "specifications; driven by /verif/check (python3)",
        }],
        "checks": checks,
        "notes": "All checks are generated-input search (property-based testing / fuzzing); see DESIGN.md. "
                 "Known findings and fixed defects are listed in /verif/KNOWN_FINDINGS.txt.",
        "not_applicable": na,
    }
    with open(os.path.join(ROOT, "MANIFEST.json"), "w") as f:
        json.dump(m, f, indent=1)
        f.write("\n")


if __name__ == "__main__":
    main()
