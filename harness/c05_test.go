package harness

// C05 Extended-key strings round-trip and are strictly validated.

import (
	"bytes"
	"encoding/binary"
	"fmt"
	"math/big"
	"testing"

	"github.com/gcash/bchutil/hdkeychain"
	"pgregory.net/rapid"
)

// ---- kind: roundtrip (keys reachable by derivation) ---------------------------------

type c05RT struct {
	Seed   HexBytes `json:"seed"`
	Net    int      `json:"net"`
	Path   []uint32 `json:"path"`
	Public bool     `json:"public"`
}

var c05ChildIdx = []uint32{0, 1, 0x80000000}

func evalC05RT(c c05RT, o *Obs) error {
	k, err := hdkeychain.NewMaster(c.Seed, nets[c.Net].Params)
	if err != nil {
		return nil
	}
	for _, i := range c.Path {
		if k, err = k.Child(i); err != nil {
			return nil
		}
	}
	if c.Public {
		if k, err = k.Neuter(); err != nil {
			return fmt.Errorf("Neuter failed: %v", err)
		}
		o.Class("C05:rt-public")
	} else {
		o.Class("C05:rt-private")
	}
	o.NT()
	if priv, err := k.ECPrivKey(); err == nil {
		if b := pad32(priv.D); b[0] == 0 {
			o.Class("C05:rt-scalar-with-leading-zero-byte")
			if b[1] == 0 {
				o.Class("C05:rt-scalar-with-two-leading-zero-bytes")
			}
		}
	}
	s := k.String()
	p, err := hdkeychain.NewKeyFromString(s)
	if err != nil {
		return fmt.Errorf("NewKeyFromString(%s) (a key produced by the library) failed: %v", s, err)
	}
	if p.String() != s {
		return fmt.Errorf("re-parsed key serialises to %s, want %s", p.String(), s)
	}
	if p.IsPrivate() != k.IsPrivate() || p.Depth() != k.Depth() || p.ParentFingerprint() != k.ParentFingerprint() {
		return fmt.Errorf("re-parsed key %s: IsPrivate/Depth/ParentFingerprint = %v/%d/%08x, want %v/%d/%08x", s,
			p.IsPrivate(), p.Depth(), p.ParentFingerprint(), k.IsPrivate(), k.Depth(), k.ParentFingerprint())
	}
	for _, i := range c05ChildIdx {
		a, e1 := k.Child(i)
		b, e2 := p.Child(i)
		if (e1 == nil) != (e2 == nil) || (e1 != nil && e1 != e2) {
			return fmt.Errorf("re-parsed key %s: Child(%d) err %v, original %v", s, i, e2, e1)
		}
		if e1 == nil && a.String() != b.String() {
			return fmt.Errorf("re-parsed key %s: Child(%d) = %s, original derives %s", s, i, b.String(), a.String())
		}
		// what is done to a child of the parsed key (moved to another network, printed, erased) leaves the parsed key as it is
		if e2 == nil {
			b.SetNet(nets[(c.Net+1)%len(nets)].Params)
			_ = b.String()
			if i%2 == 1 {
				b.Zero()
			}
			if p.String() != s {
				return fmt.Errorf("re-parsed key %s serialises to %s after its child %d was moved to another network / printed / erased", s, p.String(), i)
			}
		}
	}
	// the parsed key's neutered twin is erased, and so is a second key parsed from the same string: the parsed key and
	// every later parse of that string are what they were
	if n, err := p.Neuter(); err == nil && n != p {
		n.Zero()
	}
	if q, err := hdkeychain.NewKeyFromString(s); err == nil {
		q.Zero()
	}
	if p.String() != s {
		return fmt.Errorf("re-parsed key %s serialises to %s after its neutered twin and another key parsed from the same string were erased", s, p.String())
	}
	if q, err := hdkeychain.NewKeyFromString(s); err != nil || q.String() != s {
		return fmt.Errorf("key string %s, parsed once more after an earlier key parsed from it was erased, gives %v (err %v)", s, q, err)
	}
	// a network of the caller's own making, known to no registry: the key carries its version bytes like any other
	own := *nets[c.Net].Params
	own.Name = "own"
	own.HDPrivateKeyID = [4]byte{0x04, 0x35, c.Seed[0], 0x01}
	own.HDPublicKeyID = [4]byte{0x04, 0x35, c.Seed[0], 0x02}
	p.SetNet(&own)
	wantVer := own.HDPublicKeyID
	if p.IsPrivate() {
		wantVer = own.HDPrivateKeyID
	}
	s2 := p.String()
	raw, _ := refB58Decode(s2)
	if len(raw) != 82 || !bytes.Equal(raw[:4], wantVer[:]) || !bytes.Equal(raw[4:78], mustB58(s)[4:78]) {
		return fmt.Errorf("key %s moved to a caller-made network (versions %x/%x) serialises to %s: not the same key under that network's version", s, own.HDPrivateKeyID, own.HDPublicKeyID, s2)
	}
	p2, err := hdkeychain.NewKeyFromString(s2)
	if err != nil || p2.String() != s2 {
		return fmt.Errorf("key %s moved to a caller-made network prints as %s, which does not parse back to itself (err %v)", s, s2, err)
	}
	o.Class("C05:rt-own-network")
	// finally the first key that was parsed from the string is erased; the string still means what it meant
	p.Zero()
	if q, err := hdkeychain.NewKeyFromString(s); err != nil || q.String() != s {
		return fmt.Errorf("key string %s, parsed again after the first key parsed from it was erased, gives %v (err %v)", s, q, err)
	}
	return nil
}

func mustB58(s string) []byte { b, _ := refB58Decode(s); return b }

var kC05RT = register(&Kind[c05RT]{
	Prop: "C05", Name: "roundtrip",
	Gen: func(t *rapid.T) c05RT {
		c := c05RT{Seed: genBytes(t, "seed", 16, 64), Net: genNet(t), Public: rapid.Bool().Draw(t, "public")}
		n := rapid.IntRange(0, 5).Draw(t, "pathlen")
		for i := 0; i < n; i++ {
			c.Path = append(c.Path, genIndex(t))
		}
		// directed: end the path at a key whose private scalar has one (often) or two (sometimes)
		// leading zero bytes - its in-memory form and its re-parsed form must derive the same children
		if cls := rapid.IntRange(0, 23).Draw(t, "lz"); cls <= 3 {
			if r, err := refMaster(c.Seed, c.Net); err == nil {
				ok := true
				for _, i := range c.Path {
					if r, err = r.child(i); err != nil {
						ok = false
						break
					}
				}
				if ok {
					zb, tries := 1, uint32(3000)
					if cls == 0 {
						zb, tries = 2, 400000
					}
					start := rapid.Uint32().Draw(t, "lz_start")
					pub := r.pubBytes()
					for d := uint32(0); d < tries; d++ {
						if refChildScalarHasLZ(r, pub, start+d, zb) {
							c.Path = append(c.Path, start+d)
							break
						}
					}
				}
			}
		}
		return c
	},
	Eval: evalC05RT,
})

// ---- kind: hostile (constructed payloads) --------------------------------------------

type c05Hostile struct {
	Payload   HexBytes `json:"payload"`    // what is hashed (normally 78 bytes)
	Recompute bool     `json:"recompute"`  // append the correct checksum (else Cksum)
	Cksum     HexBytes `json:"cksum"`      // explicit 4 checksum bytes when !Recompute
	FlipBit   int      `json:"flip_bit"`   // -1 none; else flip this bit of payload||checksum
	AllFlips  bool     `json:"all_flips"`  // additionally try every single-bit flip
	LeadOnes  int      `json:"lead_ones"`  // prepend this many '1' characters
	TrailJunk string   `json:"trail_junk"` // appended characters
	AliasPos  int      `json:"alias_pos"`  // -1 none; else replace the character at this position (mod length) ...
	AliasKind int      `json:"alias_kind"` // ... by a same-low-byte rune (0: U+01xx, 1: U+02xx, 2: U+FFxx) or the byte with bit 5/6/7 flipped (3,4,5)
}

func applyAlias(s string, pos, kind int) string {
	if pos < 0 || len(s) == 0 {
		return s
	}
	i := pos % len(s)
	c := s[i]
	var rep string
	switch kind % 6 {
	case 0:
		rep = string(rune(0x100 + int(c)))
	case 1:
		rep = string(rune(0x200 + int(c)))
	case 2:
		rep = string(rune(0xff00 + int(c)))
	case 3:
		rep = string([]byte{c ^ 0x20})
	case 4:
		rep = string([]byte{c ^ 0x40})
	default:
		rep = string([]byte{c | 0x80})
	}
	return s[:i] + rep + s[i+1:]
}

func c05Judge(s string, o *Obs) error {
	k, err := hdkeychain.NewKeyFromString(s)
	r, rerr := refParseExtKey(s)
	if (err == nil) != (rerr == nil) {
		return fmt.Errorf("NewKeyFromString(%q): err=%v, strict reference validator: %v", s, err, rerr)
	}
	if err != nil {
		o.Class("C05:rejected:" + rerr.Error())
		return nil
	}
	o.Class("C05:accepted")
	if k.String() != s {
		return fmt.Errorf("NewKeyFromString(%q) accepted but re-serialises to %q", s, k.String())
	}
	if k.IsPrivate() != (r.Priv != nil) || k.Depth() != r.Depth || k.ParentFingerprint() != binary.BigEndian.Uint32(r.ParentFP[:]) {
		return fmt.Errorf("NewKeyFromString(%q): fields IsPrivate/Depth/FP = %v/%d/%08x differ from the payload", s,
			k.IsPrivate(), k.Depth(), k.ParentFingerprint())
	}
	for _, i := range c05ChildIdx {
		ck, e1 := k.Child(i)
		cr, e2 := r.child(i)
		if e2 == errRefBadChild {
			continue
		}
		if (e1 == nil) != (e2 == nil) {
			return fmt.Errorf("parsed %q: Child(%d) err=%v, reference err=%v", s, i, e1, e2)
		}
		if e1 == nil && ck.String() != cr.String() {
			return fmt.Errorf("parsed %q: Child(%d) = %s, BIP32 on the parsed fields gives %s", s, i, ck.String(), cr.String())
		}
	}
	return nil
}

func evalC05Hostile(c c05Hostile, o *Obs) error {
	raw := append([]byte{}, c.Payload...)
	if c.Recompute {
		raw = append(raw, dsha256(c.Payload)[:4]...)
		o.NT()
		o.Class("C05:checksum-recomputed/len=%d", len(raw))
	} else {
		raw = append(raw, c.Cksum...)
	}
	if c.FlipBit >= 0 && len(raw) > 0 {
		b := c.FlipBit % (len(raw) * 8)
		raw[b/8] ^= 1 << uint(b%8)
		o.NT()
		o.Class("C05:single-bit-flip")
	}
	s := refB58Encode(raw)
	for i := 0; i < c.LeadOnes; i++ {
		s = "1" + s
	}
	if c.LeadOnes > 0 {
		o.Class("C05:leading-ones")
	}
	s += c.TrailJunk
	if c.AliasPos >= 0 {
		s = applyAlias(s, c.AliasPos, c.AliasKind)
		o.Class("C05:character-alias")
	}
	if err := c05Judge(s, o); err != nil {
		return err
	}
	if c.AllFlips {
		o.Class("C05:all-single-bit-flips")
		for b := 0; b < len(raw)*8; b++ {
			f := append([]byte{}, raw...)
			f[b/8] ^= 1 << uint(b%8)
			if err := c05Judge(refB58Encode(f), &Obs{}); err != nil {
				return err
			}
		}
		// every value of every checksum byte
		if len(raw) >= 4 {
			for pos := len(raw) - 4; pos < len(raw); pos++ {
				for v := 0; v < 256; v++ {
					f := append([]byte{}, raw...)
					f[pos] = byte(v)
					if err := c05Judge(refB58Encode(f), &Obs{}); err != nil {
						return err
					}
				}
			}
		}
	}
	return nil
}

func genKeyData(t *rapid.T) []byte {
	kd := make([]byte, 33)
	switch rapid.IntRange(0, 2).Draw(t, "kd_cls") {
	case 0: // private: 00 || k, k adversarial
		var k *big.Int
		switch rapid.IntRange(0, 9).Draw(t, "k_cls") {
		case 8, 9:
			// around the group order word by word: some leading 32-bit / 64-bit words are n's, the next one is
			// n's +-1 or arbitrary, the rest arbitrary (comparisons done in words must be lexicographic)
			nb := pad32(curveN)
			kb := genBytesN(t, "knear", 32)
			w := 4 * rapid.IntRange(1, 7).Draw(t, "nwords")
			copy(kb, nb[:w])
			switch rapid.IntRange(0, 3).Draw(t, "nextword") {
			case 0:
				copy(kb[w:], nb[w:w+4])
				kb[w+3]++
			case 1:
				copy(kb[w:], nb[w:w+4])
				kb[w+3]--
			}
			k = new(big.Int).SetBytes(kb)
		case 0:
			k = big.NewInt(0)
		case 1:
			k = big.NewInt(1)
		case 2:
			k = curveNMinus1()
		case 3:
			k = new(big.Int).Set(curveN)
		case 4:
			k = new(big.Int).Add(curveN, big.NewInt(1))
		case 5:
			k = new(big.Int).Sub(new(big.Int).Lsh(big.NewInt(1), 256), big.NewInt(1))
		default:
			k = new(big.Int).SetBytes(genBytesN(t, "k", 32))
		}
		copy(kd[1:], pad32(k))
	case 1: // public: pp || x
		x, y := pubPoint(genScalar(t, "pk"))
		copy(kd, serPub(x, y, 0))
		switch rapid.IntRange(0, 5).Draw(t, "pt_cls") {
		case 0:
			kd[0] = rapid.SampledFrom([]byte{2, 3, 4, 5, 6, 7, 0, 1, 0xff}).Draw(t, "pp")
		case 1: // off curve
			xx := new(big.Int).Set(x)
			for i := 0; i < 20; i++ {
				xx.Add(xx, big.NewInt(1))
				if _, ok := liftX(xx); !ok {
					break
				}
			}
			copy(kd[1:], pad32(xx))
		case 2: // x >= p
			copy(kd[1:], pad32(new(big.Int).Add(curveP, big.NewInt(int64(rapid.IntRange(0, 50).Draw(t, "over"))))))
		}
	default:
		copy(kd, genBytesN(t, "kd", 33))
	}
	return kd
}

func genC05Hostile(t *rapid.T) c05Hostile {
	c := c05Hostile{FlipBit: -1, Recompute: true, AliasPos: -1}
	p := make([]byte, 0, 78)
	if rapid.Bool().Draw(t, "knownver") {
		n := nets[genNet(t)].Params
		if rapid.Bool().Draw(t, "privver") {
			p = append(p, n.HDPrivateKeyID[:]...)
		} else {
			p = append(p, n.HDPublicKeyID[:]...)
		}
	} else {
		p = append(p, genBytesN(t, "ver", 4)...)
	}
	p = append(p, rapid.Byte().Draw(t, "depth"))
	p = append(p, genBytesN(t, "fp", 4)...)
	var cn [4]byte
	binary.BigEndian.PutUint32(cn[:], genIndex(t))
	p = append(p, cn[:]...)
	p = append(p, genBytesN(t, "chain", 32)...)
	p = append(p, genKeyData(t)...)
	switch rapid.IntRange(0, 9).Draw(t, "shape") {
	case 0: // other lengths, checksum recomputed
		n := rapid.IntRange(66, 86).Draw(t, "len")
		for len(p) < n {
			p = append(p, rapid.Byte().Draw(t, "extra"))
		}
		p = p[:n]
	case 1:
		c.FlipBit = rapid.IntRange(0, 82*8-1).Draw(t, "flip")
	case 2:
		c.Recompute = false
		c.Cksum = genBytesN(t, "ck", 4)
	case 3:
		c.LeadOnes = rapid.IntRange(1, 3).Draw(t, "ones")
	case 4:
		c.TrailJunk = rapid.SampledFrom([]string{"1", "0", "O", "I", "l", " ", "z", "\x00", "\n", "\t", "\r\n", "\u00a0"}).Draw(t, "junk")
	case 5:
		c.AllFlips = rapid.IntRange(0, 5).Draw(t, "allflips") == 0
	case 6:
		c.AliasPos = rapid.IntRange(0, 120).Draw(t, "alias_pos")
		c.AliasKind = rapid.IntRange(0, 5).Draw(t, "alias_kind")
	}
	c.Payload = p
	return c
}

var kC05Hostile = register(&Kind[c05Hostile]{Prop: "C05", Name: "hostile", Gen: genC05Hostile, Eval: evalC05Hostile})

// ---- kind: random strings -----------------------------------------------------------

type c05Str struct {
	S string `json:"s"`
}

var kC05Str = register(&Kind[c05Str]{
	Prop: "C05", Name: "string",
	Gen: func(t *rapid.T) c05Str {
		if rapid.Bool().Draw(t, "b58") {
			return c05Str{S: genB58String(t, "s", 120)}
		}
		return c05Str{S: rapid.StringMatching(`[ -~]{0,120}`).Draw(t, "s")}
	},
	Eval: func(c c05Str, o *Obs) error { return c05Judge(c.S, o) },
})

func TestC05(t *testing.T) {
	propTest(t, "C05", func(ev *Ev) {
		ev.Rule("(i) keys reached by derivation (seed x net x path x private/neutered) must re-parse to an identical key "+
			"(serialisation, flags, depth, fingerprint, children 0, 1, 2^31); (ii) constructed 78-byte payloads with adversarial "+
			"key data (scalar 0, 1, n-1, n, n+1, 2^256-1; point prefixes 00..07/ff, off-curve x, x>=p), arbitrary other fields, "+
			"lengths 66..86, with a recomputed checksum, plus single-bit flips (all 656 for a sixth of the flip cases, and every "+
			"value of each checksum byte), explicit wrong checksums, leading '1's and trailing foreign characters; (iii) random "+
			"strings. Oracle: strict reference validator must agree on accept/reject; accept => identical re-serialisation, "+
			"fields from the payload, BIP32 children from the parsed fields. Non-trivial = checksum valid or single-bit corruption "+
			"of a valid payload, or a derived key.",
			"reference BIP32/Base58 pinned to published vectors", "bchec point arithmetic")
		refSelfCodecs(ev)
		refSelfBIP32(ev)
		if len(ev.harnessErrors) > 0 {
			return
		}
		kC05RT.Run(t, ev, perShard(pick(1200, 60000)))
		kC05Hostile.Run(t, ev, perShard(pick(4000, 800000)))
		kC05Str.Run(t, ev, perShard(pick(1000, 500000)))
		kC05Alias.Run(t, ev, perShard(pick(40, 3000)))
		runConcurrent(kC05Hostile, t, ev, perShard(pick(100, 10000)), 8)
		ev.requireClasses("C05:accepted", "C05:rejected:ref: scalar out of range", "C05:rejected:ref: point not on curve",
			"C05:rejected:ref: key data prefix", "C05:rejected:ref: checksum", "C05:rejected:ref: length",
			"C05:all-single-bit-flips", "C05:leading-ones", "C05:rt-public", "C05:rt-private",
			"C05:rt-scalar-with-leading-zero-byte", "C05:rt-scalar-with-two-leading-zero-bytes", "C05:character-alias")
	})
}
