package harness

// C10 Transaction filtering finds every relevant transaction, in any block order.

import (
	"bytes"
	"embed"
	"encoding/json"
	"fmt"
	"sort"
	"testing"

	"github.com/gcash/bchd/chaincfg/chainhash"
	"github.com/gcash/bchd/txscript"
	"github.com/gcash/bchd/wire"
	"github.com/gcash/bchutil"
	"github.com/gcash/bchutil/bloom"
	"github.com/gcash/bchutil/merkleblock"
	"pgregory.net/rapid"
)

// ---- script grammar ------------------------------------------------------------------

type scriptSpec struct {
	Cls   string `json:"cls"`             // p2pk multisig p2pkh p2sh nulldata pushes unparsable empty
	Items []int  `json:"items,omitempty"` // indices into the case's item pool (taken modulo its size)
	Enc   []int  `json:"enc,omitempty"`   // push encodings for cls=pushes: 0 minimal, 1 PUSHDATA1, 2 PUSHDATA2
	M     int    `json:"m,omitempty"`
	// Mut: one byte of the finished script is replaced (position modulo its length): templates that are almost
	// standard.  Pushes and parsability then come from parsePushes, the harness's own reading of the bytes.
	Mut    bool `json:"mut,omitempty"`
	MutPos int  `json:"mut_pos,omitempty"`
	MutVal byte `json:"mut_val,omitempty"`
	// Long: this many OP_NOP bytes stand in front of the script - a script longer than what an interpreter would
	// run (10000 bytes) is still a script in a block, and its pushes are still its pushes
	Long int `json:"long,omitempty"`
	// Token (outputs only): 1 the output also carries a fungible CashToken amount, 2 an NFT with a commitment, 3 both.
	// Token data travels next to the script, not in it: which transactions are relevant does not depend on it.
	Token int `json:"token,omitempty"`
}

func c10TokenData(kind, salt int) wire.TokenData {
	if kind <= 0 || kind > 3 {
		return wire.TokenData{}
	}
	var cat [32]byte
	for i := range cat {
		cat[i] = byte(salt*7 + i*3 + 1)
	}
	var amt *uint64
	var com *[]byte
	var capab *byte
	if kind == 1 || kind == 3 {
		a := uint64(1 + salt)
		amt = &a
	}
	if kind >= 2 {
		c := bytes.Repeat([]byte{byte(0x40 + salt)}, 1+salt%8)
		com = &c
		cb := byte(salt % 3)
		capab = &cb
	}
	if p, err := wire.NewTokenData(cat, amt, com, capab); err == nil {
		return *p
	}
	return wire.TokenData{}
}

// parsePushes reads a script the way Bitcoin scripts are tokenised: 0x01..0x4b push that many bytes, 0x4c /
// 0x4d / 0x4e take a 1 / 2 / 4-byte little-endian length, every other opcode is one byte without data; a push
// that runs past the end makes the script unparsable.  OP_0 counts as an empty data element (as bchd reports it).
func parsePushes(s []byte) (pushes [][]byte, ok bool) {
	for i := 0; i < len(s); {
		op := s[i]
		i++
		n, w := 0, 0
		switch {
		case op >= 0x01 && op <= 0x4b:
			n = int(op)
		case op == 0x4c:
			w = 1
		case op == 0x4d:
			w = 2
		case op == 0x4e:
			w = 4
		case op == 0x00:
			pushes = append(pushes, []byte{}) // bchd's tokenizer reports OP_0 as an empty data element
			continue
		default:
			continue
		}
		if w > 0 {
			if i+w > len(s) {
				return nil, false
			}
			for k := w - 1; k >= 0; k-- {
				n = n<<8 | int(s[i+k])
			}
			i += w
		}
		if n < 0 || i+n > len(s) {
			return nil, false
		}
		pushes = append(pushes, s[i:i+n:i+n])
		i += n
	}
	return pushes, true
}

func pushOp(data []byte, enc int) []byte {
	switch {
	case enc == 2 || len(data) > 255:
		out := []byte{0x4d, byte(len(data)), byte(len(data) >> 8)}
		return append(out, data...)
	case enc == 1 || len(data) > 75:
		return append([]byte{0x4c, byte(len(data))}, data...)
	case len(data) == 0:
		return []byte{0x00} // OP_0
	}
	return append([]byte{byte(len(data))}, data...)
}

// buildScript returns the script bytes and the data pushes the grammar emitted
// (nil slice entry for an empty push); parsable=false for truncated scripts.
// selfItemBase: item indices from here on denote the serialisation of one of the transaction's own
// spent outpoints (a 36-byte data element that can only become relevant when that outpoint does).
const selfItemBase = 10000

func buildScript(s scriptSpec, pool []HexBytes, self ...[]byte) (script []byte, pushes [][]byte, parsable bool) {
	item := func(i int) []byte {
		if len(pool) == 0 || i >= len(s.Items) {
			return []byte{1}
		}
		if s.Items[i] >= selfItemBase && len(self) > 0 {
			return self[(s.Items[i]-selfItemBase)%len(self)]
		}
		return pool[((s.Items[i]%len(pool))+len(pool))%len(pool)]
	}
	parsable = true
	switch s.Cls {
	case "p2pk":
		d := item(0)
		script = append(pushOp(d, 0), 0xac)
		pushes = [][]byte{d}
	case "multisig":
		n := len(s.Items)
		if n < 1 {
			n = 1
		}
		if n > 5 {
			n = 5
		}
		m := s.M%n + 1
		script = []byte{byte(0x50 + m)}
		for i := 0; i < n; i++ {
			script = append(script, pushOp(item(i), 0)...)
			pushes = append(pushes, item(i))
		}
		script = append(script, byte(0x50+n), 0xae)
	case "p2pkh":
		d := item(0)
		script = append([]byte{0x76, 0xa9}, pushOp(d, 0)...)
		script = append(script, 0x88, 0xac)
		pushes = [][]byte{d}
	case "p2sh":
		d := item(0)
		script = append([]byte{0xa9}, pushOp(d, 0)...)
		script = append(script, 0x87)
		pushes = [][]byte{d}
	case "nulldata":
		script = []byte{0x6a}
		for i := range s.Items {
			script = append(script, pushOp(item(i), 0)...)
			pushes = append(pushes, item(i))
		}
	case "pushes":
		for i := range s.Items {
			enc := 0
			if i < len(s.Enc) {
				enc = s.Enc[i]
			}
			script = append(script, pushOp(item(i), enc)...)
			pushes = append(pushes, item(i))
		}
		if s.M%3 == 1 {
			script = append(script, 0x75) // OP_DROP
		}
	case "unparsable":
		d := item(0)
		if len(d) == 0 {
			d = []byte{7}
		}
		script = pushOp(d, 0)
		script = script[:len(script)-1] // truncated push
		if len(script) == 0 || script[0] == 0x00 {
			script = []byte{0x05, 0x01}
		}
		if len(s.Items) > 1 { // a valid push before the broken one
			script = append(pushOp(item(1), 0), script...)
		}
		pushes, parsable = nil, false
	default: // empty
		script = []byte{}
	}
	if s.Mut && len(script) > 0 {
		script = append([]byte{}, script...)
		script[((s.MutPos%len(script))+len(script))%len(script)] = s.MutVal
		pushes, parsable = parsePushes(script)
		if !parsable {
			pushes = nil
		}
	}
	for i, p := range pushes {
		if len(p) == 0 {
			pushes[i] = nil
		}
	}
	if s.Long > 0 && s.Long <= 100000 {
		script = append(bytes.Repeat([]byte{0x61}, s.Long), script...)
	}
	return
}

// ---- case description ----------------------------------------------------------------

type c10In struct {
	Src    int        `json:"src"` // >=0: transaction index in creation order (must be earlier); <0: external hash -Src
	Out    uint32     `json:"out"`
	Script scriptSpec `json:"script"`
}

type c10Tx struct {
	Ins      []c10In      `json:"ins"`
	Outs     []scriptSpec `json:"outs"`
	LockTime uint32       `json:"locktime"`
	PadOuts  int          `json:"pad_outs,omitempty"` // this many outputs with an empty script precede Outs
	PadIns   int          `json:"pad_ins,omitempty"`  // this many inputs spending unrelated outside outputs precede Ins
}

type c10Preload struct {
	Kind string `json:"kind"` // item | txid | outpoint | extoutpoint
	A    int    `json:"a"`
	B    uint32 `json:"b"`
}

type c10Case struct {
	Pool    []HexBytes   `json:"pool"`
	Len     int          `json:"len"`
	K       uint32       `json:"k"`
	Tweak   uint32       `json:"tweak"`
	Flags   byte         `json:"flags"`
	Preload []c10Preload `json:"preload"`
	Txs     []c10Tx      `json:"txs"`  // creation (topological) order
	Perm    []int        `json:"perm"` // block order: positions -> creation index (normalised to a permutation)
	PermTag string       `json:"perm_tag"`
	// Filler: this many unrelated transactions (no outputs, one external input) stand in front of the others in the block
	Filler int `json:"filler,omitempty"`
	// FillerSpread: the fillers stand between the others (evenly) instead of in front of them
	FillerSpread bool  `json:"filler_spread,omitempty"`
	DupPos       []int `json:"dup_pos,omitempty"` // further block positions holding a transaction that is already in the block
}

type builtTx struct {
	msg    *wire.MsgTx
	hash   chainhash.Hash
	outPsh [][][]byte // pushes per output
	outCls []txscript.ScriptClass
	inPsh  [][][]byte
}

func extHash(k int) chainhash.Hash {
	var h chainhash.Hash
	for i := range h {
		h[i] = byte(0xE0 + k)
	}
	h[0] = byte(k)
	return h
}

const nullSrc = -100 // c10In.Src value for the null outpoint (all-zero hash, index 0xffffffff)

func buildTxs(c c10Case) ([]*builtTx, error) {
	var out []*builtTx
	for ti, t := range c.Txs {
		b := &builtTx{msg: wire.NewMsgTx(1)}
		b.msg.LockTime = t.LockTime
		if t.PadIns < 0 || t.PadIns > 5000 {
			return nil, hbug("pad_ins")
		}
		for i := 0; i < t.PadIns; i++ {
			prev := extHash(4)
			b.msg.AddTxIn(wire.NewTxIn(wire.NewOutPoint(&prev, uint32(9000+i)), nil))
			b.inPsh = append(b.inPsh, nil)
		}
		for _, in := range t.Ins {
			var prev chainhash.Hash
			if in.Src == nullSrc { // a coinbase-style input: null outpoint, the script is free-form data
				in.Out = 0xffffffff
			} else if in.Src >= 0 && ti > 0 {
				prev = out[in.Src%ti].hash
			} else {
				k := -in.Src
				if k < 1 || in.Src >= 0 {
					k = 1
				}
				prev = extHash(k)
			}
			script, pushes, parsable := buildScript(in.Script, c.Pool)
			got, err := txscript.PushedData(script)
			if parsable != (err == nil) || (parsable && !pushesEqual(got, pushes)) {
				return nil, hbug("grammar and txscript.PushedData disagree on input script %x: %v / %x vs %x", script, err, got, pushes)
			}
			b.msg.AddTxIn(wire.NewTxIn(wire.NewOutPoint(&prev, in.Out), script))
			b.inPsh = append(b.inPsh, pushes)
		}
		if t.PadOuts < 0 || t.PadOuts > 70000 {
			return nil, hbug("pad_outs")
		}
		for i := 0; i < t.PadOuts; i++ {
			b.msg.AddTxOut(wire.NewTxOut(int64(i), nil, wire.TokenData{}))
			b.outPsh = append(b.outPsh, nil)
			b.outCls = append(b.outCls, txscript.NonStandardTy)
		}
		for oi, os := range t.Outs {
			var self [][]byte
			for _, in := range b.msg.TxIn {
				self = append(self, outpointBytes(in.PreviousOutPoint.Hash[:], in.PreviousOutPoint.Index))
			}
			script, pushes, parsable := buildScript(os, c.Pool, self...)
			got, err := txscript.PushedData(script)
			if parsable != (err == nil) || (parsable && !pushesEqual(got, pushes)) {
				return nil, hbug("grammar and txscript.PushedData disagree on output script %x: %v / %x vs %x", script, err, got, pushes)
			}
			b.msg.AddTxOut(wire.NewTxOut(int64(1000+oi), script, c10TokenData(os.Token, oi)))
			b.outPsh = append(b.outPsh, pushes)
			b.outCls = append(b.outCls, txscript.GetScriptClass(script))
		}
		b.hash = b.msg.TxHash()
		out = append(out, b)
	}
	if c.Filler < 0 || c.Filler > 70000 {
		return nil, hbug("filler")
	}
	for i := 0; i < c.Filler; i++ {
		b := &builtTx{msg: wire.NewMsgTx(1)}
		b.msg.LockTime = uint32(1000000 + i)
		prev := extHash(3)
		b.msg.AddTxIn(wire.NewTxIn(wire.NewOutPoint(&prev, uint32(5000+i)), nil))
		b.inPsh = append(b.inPsh, nil)
		b.hash = b.msg.TxHash()
		out = append(out, b)
	}
	return out, nil
}

func pushesEqual(a, b [][]byte) bool {
	if len(a) != len(b) {
		return false
	}
	for i := range a {
		if !bytes.Equal(a[i], b[i]) {
			return false
		}
	}
	return true
}

// preloadItems resolves the preload list into byte strings.
func preloadItems(c c10Case, txs []*builtTx) [][]byte {
	var items [][]byte
	for _, p := range c.Preload {
		switch p.Kind {
		case "item":
			if len(c.Pool) > 0 {
				items = append(items, c.Pool[((p.A%len(c.Pool))+len(c.Pool))%len(c.Pool)])
			}
		case "txid":
			if len(txs) > 0 {
				h := txs[((p.A%len(txs))+len(txs))%len(txs)].hash
				items = append(items, h[:])
			}
		case "outpoint":
			if len(txs) > 0 {
				h := txs[((p.A%len(txs))+len(txs))%len(txs)].hash
				items = append(items, outpointBytes(h[:], p.B))
			}
		case "extoutpoint":
			h := extHash(p.A%3 + 1)
			items = append(items, outpointBytes(h[:], p.B))
		case "nulloutpoint":
			items = append(items, outpointBytes(make([]byte, 32), 0xffffffff))
		}
	}
	return items
}

func shouldUpdate(flags byte, cls txscript.ScriptClass) bool {
	switch flags {
	case 1:
		return true
	case 2:
		return cls == txscript.PubKeyTy || cls == txscript.MultiSigTy
	}
	return false
}

// modelMatchTx is BIP37's IsRelevantAndUpdate on the model filter.
func modelMatchTx(m *refBloom, b *builtTx, update bool) (matched bool, reasons []string) {
	if m.has(b.hash[:]) {
		matched = true
		reasons = append(reasons, "txid")
	}
	for i, pushes := range b.outPsh {
		for _, p := range pushes {
			if m.has(p) {
				matched = true
				reasons = append(reasons, "output-push")
				if update && shouldUpdate(m.flags, b.outCls[i]) {
					m.add(outpointBytes(b.hash[:], uint32(i)))
					reasons = append(reasons, "updated")
				}
				break
			}
		}
	}
	if matched {
		return
	}
	for i, in := range b.msg.TxIn {
		if m.has(outpointBytes(in.PreviousOutPoint.Hash[:], in.PreviousOutPoint.Index)) {
			return true, append(reasons, "spent-outpoint")
		}
		for _, p := range b.inPsh[i] {
			if m.has(p) {
				return true, append(reasons, "input-push")
			}
		}
	}
	return false, reasons
}

func c10Filter(c c10Case, items [][]byte) (*bloom.Filter, *refBloom) {
	m := newRefBloom(c.Len, c.K, c.Tweak, c.Flags)
	if c.Tweak%2 == 1 {
		// as a node sees it: the peer's filterload message arrives with its bits already set; nothing is added locally
		for _, it := range items {
			m.add(it)
		}
		msg := wire.NewMsgFilterLoad(append([]byte{}, m.bits...), c.K, c.Tweak, wire.BloomUpdateType(c.Flags))
		switch c.Tweak % 8 {
		case 3: // the peer object existed before the message came: LoadFilter(nil), then Reload
			f := bloom.LoadFilter(nil)
			f.Reload(msg)
			return f, m
		case 5: // ... or was a zero-value Filter
			f := new(bloom.Filter)
			f.Reload(msg)
			return f, m
		}
		return bloom.LoadFilter(msg), m
	}
	f := bloom.LoadFilter(wire.NewMsgFilterLoad(make([]byte, c.Len), c.K, c.Tweak, wire.BloomUpdateType(c.Flags)))
	for _, it := range items {
		f.Add(it)
		m.add(it)
	}
	return f, m
}

func normPerm(p []int, n int) []int {
	used := make([]bool, n)
	var out []int
	for _, x := range p {
		x = ((x % n) + n) % n
		if !used[x] {
			used[x] = true
			out = append(out, x)
		}
	}
	for i := 0; i < n; i++ {
		if !used[i] {
			out = append(out, i)
		}
	}
	return out
}

func evalC10(c c10Case, o *Obs) error {
	if c.Len < 1 || c.Len > 36000 || c.K > 50 || len(c.Txs) == 0 {
		return hbug("bad case")
	}
	for _, it := range c.Pool {
		if len(it) == 36 {
			return hbug("pool item of length 36")
		}
	}
	txs, err := buildTxs(c)
	if err != nil {
		return err
	}
	items := preloadItems(c, txs)
	for _, b := range txs {
		for _, cl := range b.outCls {
			o.Class("C10:out-class=%v", cl)
		}
	}
	o.Class("C10:flags=%d", c.Flags)

	// ---- single transactions: each against a fresh copy of the preloaded filter ----
	for ti, b := range txs {
		if ti >= len(c.Txs)+3 {
			break // filler transactions are all alike
		}
		f, m := c10Filter(c, items)
		got := f.MatchTxAndUpdate(bchutil.NewTx(b.msg))
		want, reasons := modelMatchTx(m, b, true)
		for _, r := range reasons {
			o.Class("C10:tx-reason=" + r)
			o.NT()
		}
		if got != want {
			return fmt.Errorf("MatchTxAndUpdate(tx %d %v) = %v, BIP37 model says %v (reasons %v)", ti, b.hash, got, want, reasons)
		}
		if !bytes.Equal(f.MsgFilterLoad().Filter, m.bits) {
			return fmt.Errorf("after MatchTxAndUpdate(tx %d %v, flags %d) the filter bits are %x, BIP37 model %x (reasons %v)",
				ti, b.hash, c.Flags, clip(f.MsgFilterLoad().Filter), clip(m.bits), reasons)
		}
	}

	// ---- no filter loaded: nothing is relevant, nothing is reported, nothing panics ----
	if c.Tweak%4 == 0 {
		o.Class("C10:no-filter-loaded")
		for _, nf := range []*bloom.Filter{bloom.LoadFilter(nil), func() *bloom.Filter { f, _ := c10Filter(c, items); f.Unload(); return f }()} {
			blk := wire.NewMsgBlock(&wire.BlockHeader{Version: 1})
			for ti, b := range txs {
				if nf.MatchTxAndUpdate(bchutil.NewTx(b.msg)) {
					return fmt.Errorf("MatchTxAndUpdate(tx %d) = true on a filter that is not loaded", ti)
				}
				blk.AddTransaction(b.msg)
			}
			if R := bloom.GetMatchedIndices(bchutil.NewBlock(blk), nf); len(R) != 0 {
				return fmt.Errorf("GetMatchedIndices reports %v with no filter loaded", R)
			}
			if _, idx := bloom.NewMerkleBlock(bchutil.NewBlock(blk), nf); len(idx) != 0 {
				return fmt.Errorf("bloom.NewMerkleBlock reports matches %v with no filter loaded", idx)
			}
			if _, idx := merkleblock.NewMerkleBlockWithFilter(bchutil.NewBlock(blk), nf); len(idx) != 0 {
				return fmt.Errorf("merkleblock.NewMerkleBlockWithFilter reports matches %v with no filter loaded", idx)
			}
			if nf.IsLoaded() {
				return fmt.Errorf("matching against an unloaded filter loaded it")
			}
		}
	}

	// ---- block scan ----
	perm := normPerm(c.Perm, len(c.Txs))
	if c.Filler > 0 {
		full := make([]int, 0, len(txs))
		for i := len(c.Txs); i < len(txs); i++ {
			full = append(full, i)
		}
		if c.FillerSpread {
			var mixed []int
			per, k := len(full)/(len(perm)+1), 0
			for _, pi := range perm {
				mixed = append(mixed, full[k:k+per]...)
				k += per
				mixed = append(mixed, pi)
			}
			perm = append(mixed, full[k:]...)
			o.Class("C10:relevant-transactions-spread-over-a-block-of-hundreds")
		} else {
			perm = append(full, perm...)
		}
		if c.Filler > 65000 {
			o.Class("C10:block-of-more-than-65536-transactions")
		}
	}
	for _, d := range c.DupPos { // the same transaction at a further position of the block
		if d < 0 {
			d = -d
		}
		at, src := d%(len(perm)+1), perm[(d/7)%len(perm)]
		perm = append(perm[:at:at], append([]int{src}, perm[at:]...)...)
		o.Class("C10:transaction-twice-in-the-block")
	}
	blk := wire.NewMsgBlock(&wire.BlockHeader{Version: 1})
	for _, pi := range perm {
		blk.AddTransaction(txs[pi].msg)
	}
	f, _ := c10Filter(c, items)
	R := bloom.GetMatchedIndices(bchutil.NewBlock(blk), f)
	final := f.MsgFilterLoad().Filter
	mFinal := newRefBloom(c.Len, c.K, c.Tweak, c.Flags)
	copy(mFinal.bits, final)
	// upper bound: everything reported matches the final filter state
	for pos := range R {
		if pos < 0 || pos >= len(perm) {
			return fmt.Errorf("GetMatchedIndices reported index %d outside the block", pos)
		}
		if ok, _ := modelMatchTx(mFinal.clone(), txs[perm[pos]], false); !ok {
			return fmt.Errorf("GetMatchedIndices reports position %d (tx %v) which the final filter state does not match", pos, txs[perm[pos]].hash)
		}
	}
	// lower bound: least fixpoint over exact sets
	relevant, direct := exactRelevant(c.Flags, txs, items)
	posOf := make([]int, len(txs)) // first position
	allPos := make([][]int, len(txs))
	for pos := len(perm) - 1; pos >= 0; pos-- {
		posOf[perm[pos]] = pos
		allPos[perm[pos]] = append(allPos[perm[pos]], pos)
	}
	for i := range txs {
		if !relevant[i] {
			continue
		}
		if !direct[i] {
			o.Class("C10:relevant-only-through-another-block-tx")
			o.NT()
			// is the spender placed before its funding transaction?
			for _, in := range txs[i].msg.TxIn {
				for j := range txs {
					if txs[j].hash == in.PreviousOutPoint.Hash && posOf[i] < posOf[j] {
						o.Class("C10:spender-before-funder")
					}
				}
			}
		}
		for _, pos := range allPos[i] {
			if !R[pos] {
				return fmt.Errorf("GetMatchedIndices (order %v, flags %d) misses position %d: tx %v is relevant to the loaded filter "+
					"(directly relevant: %v) but was not reported; reported %v", perm, c.Flags, pos, txs[i].hash, direct[i], sortedKeys(R))
			}
		}
	}
	o.Class("C10:perm=" + c.PermTag)
	// the merkle-block builders report the same set, ascending
	want := sortedKeys(R)
	f2, _ := c10Filter(c, items)
	_, idx2 := bloom.NewMerkleBlock(bchutil.NewBlock(blk), f2)
	f3, _ := c10Filter(c, items)
	_, idx3 := merkleblock.NewMerkleBlockWithFilter(bchutil.NewBlock(blk), f3)
	if !u32Equal(idx2, want) || !u32Equal(idx3, want) {
		return fmt.Errorf("matched index lists differ: GetMatchedIndices %v, bloom.NewMerkleBlock %v, merkleblock.NewMerkleBlockWithFilter %v", want, idx2, idx3)
	}
	return nil
}

// exactRelevant computes, with exact sets instead of bits, which transactions are relevant to
// the loaded filter: the least fixpoint of "txid, an output push, a spent outpoint or an input push is
// in the set; matching outputs add their outpoint as the update flag prescribes".  direct[i] is
// relevance w.r.t. the initial set alone.  Independent of the order of the transactions.
func exactRelevant(flags byte, txs []*builtTx, items [][]byte) (relevant, direct []bool) {
	set := map[string]bool{}
	for _, it := range items {
		set[string(it)] = true
	}
	relevant = make([]bool, len(txs))
	direct = make([]bool, len(txs))
	rel := func(b *builtTx) bool {
		if set[string(b.hash[:])] {
			return true
		}
		for _, ps := range b.outPsh {
			for _, p := range ps {
				if set[string(p)] {
					return true
				}
			}
		}
		for i, in := range b.msg.TxIn {
			if set[string(outpointBytes(in.PreviousOutPoint.Hash[:], in.PreviousOutPoint.Index))] {
				return true
			}
			for _, p := range b.inPsh[i] {
				if set[string(p)] {
					return true
				}
			}
		}
		return false
	}
	for i, b := range txs {
		direct[i] = rel(b)
	}
	for changed := true; changed; {
		changed = false
		for i, b := range txs {
			if !relevant[i] && rel(b) {
				relevant[i] = true
				changed = true
			}
			if !relevant[i] {
				continue
			}
			for oi, ps := range b.outPsh {
				hit := false
				for _, p := range ps {
					if set[string(p)] {
						hit = true
					}
				}
				if hit && shouldUpdate(flags, b.outCls[oi]) {
					k := string(outpointBytes(b.hash[:], uint32(oi)))
					if !set[k] {
						set[k] = true
						changed = true
					}
				}
			}
		}
	}
	return
}

func sortedKeys(m map[int]bool) []uint32 {
	var out []uint32
	for k, v := range m {
		if v {
			out = append(out, uint32(k))
		}
	}
	sort.Slice(out, func(i, j int) bool { return out[i] < out[j] })
	return out
}

func u32Equal(a, b []uint32) bool {
	if len(a) != len(b) {
		return false
	}
	for i := range a {
		if a[i] != b[i] {
			return false
		}
	}
	return true
}

// ---- generator -----------------------------------------------------------------------

func genScriptSpec(t *rapid.T, npool int, forInput bool) scriptSpec {
	classes := []string{"p2pk", "multisig", "p2pkh", "p2sh", "nulldata", "pushes", "pushes", "unparsable", "empty"}
	if forInput {
		classes = []string{"pushes", "pushes", "pushes", "unparsable", "empty"}
	}
	s := scriptSpec{Cls: rapid.SampledFrom(classes).Draw(t, "cls")}
	if !forInput && rapid.IntRange(0, 5).Draw(t, "near") == 0 { // almost a standard template
		s.Mut, s.MutPos = true, rapid.IntRange(-4, 70).Draw(t, "mutpos")
		s.MutVal = rapid.SampledFrom([]byte{0x00, 0x01, 0x14, 0x15, 0x21, 0x41, 0x4c, 0x4d, 0x4e, 0x51, 0x52, 0x87, 0x88, 0xac, 0xae, 0xa9, 0x76, 0x6a, 0xff}).Draw(t, "mutval")
	}
	if !forInput && rapid.IntRange(0, 7).Draw(t, "token") == 0 {
		s.Token = rapid.IntRange(1, 3).Draw(t, "tokenkind")
	}
	if rapid.IntRange(0, 39).Draw(t, "long") == 0 {
		s.Long = rapid.SampledFrom([]int{1, 200, 9900, 9999, 10000, 10001, 20000, 65536}).Draw(t, "longn")
	}
	switch s.Cls {
	case "p2pk":
		s.Items = []int{rapid.IntRange(0, 1).Draw(t, "pk")} // pool[0]: 33 bytes, pool[1]: 65 bytes
		if rapid.IntRange(0, 7).Draw(t, "odd") == 0 {
			s.Items[0] = rapid.IntRange(0, npool-1).Draw(t, "pkany")
		}
	case "multisig":
		n := rapid.IntRange(1, 3).Draw(t, "n")
		for i := 0; i < n; i++ {
			s.Items = append(s.Items, rapid.IntRange(0, 1).Draw(t, "mk"))
		}
		if rapid.IntRange(0, 7).Draw(t, "odd") == 0 {
			s.Items[0] = rapid.IntRange(0, npool-1).Draw(t, "mkany")
		}
		s.M = rapid.IntRange(0, 2).Draw(t, "m")
	case "p2pkh", "p2sh":
		s.Items = []int{2} // pool[2]: 20 bytes
		if rapid.IntRange(0, 7).Draw(t, "odd") == 0 {
			s.Items[0] = rapid.IntRange(0, npool-1).Draw(t, "hany")
		}
	case "nulldata", "pushes":
		n := rapid.IntRange(0, 3).Draw(t, "np")
		for i := 0; i < n; i++ {
			s.Items = append(s.Items, rapid.IntRange(0, npool-1).Draw(t, "it"))
			s.Enc = append(s.Enc, rapid.IntRange(0, 2).Draw(t, "enc"))
		}
		if !forInput && n > 0 && rapid.IntRange(0, 5).Draw(t, "selfop") == 0 {
			// an output that carries the serialisation of an outpoint this transaction spends
			s.Items[0] = selfItemBase + rapid.IntRange(0, 3).Draw(t, "selfidx")
		}
		s.M = rapid.IntRange(0, 2).Draw(t, "tail")
	case "unparsable":
		n := rapid.IntRange(1, 2).Draw(t, "nu")
		for i := 0; i < n; i++ {
			s.Items = append(s.Items, rapid.IntRange(0, npool-1).Draw(t, "it"))
		}
	}
	return s
}

func genC10(t *rapid.T) c10Case {
	c := c10Case{}
	// pool: [0] 33 bytes, [1] 65 bytes, [2] 20 bytes, [3] 32 bytes, [4] empty, then random lengths != 36
	c.Pool = []HexBytes{genBytesN(t, "p33", 33), genBytesN(t, "p65", 65), genBytesN(t, "p20", 20), genBytesN(t, "p32", 32), {}}
	extra := rapid.IntRange(0, 4).Draw(t, "extra")
	for i := 0; i < extra; i++ {
		n := rapid.SampledFrom([]int{1, 2, 5, 20, 33, 65, 75, 76, 80, 255, 256, 300}).Draw(t, "plen")
		c.Pool = append(c.Pool, genBytesN(t, "px", n))
	}
	if rapid.Bool().Draw(t, "small") {
		c.Len = rapid.IntRange(2, 64).Draw(t, "len")
		c.K = uint32(rapid.IntRange(1, 6).Draw(t, "k"))
		if rapid.IntRange(0, 2).Draw(t, "dense") == 0 { // 16..32 bits: insertions turn other elements into false positives
			c.Len = rapid.IntRange(2, 4).Draw(t, "lendense")
		}
	} else {
		c.Len = 2000
		c.K = 10
	}
	c.Tweak = rapid.Uint32().Draw(t, "tweak")
	c.Flags = byte(rapid.IntRange(0, 2).Draw(t, "flags"))
	ntx := rapid.IntRange(1, 10).Draw(t, "ntx")
	if !c10ForceWeb && rapid.IntRange(0, 7).Draw(t, "fpmask") == 0 {
		// directed: a dense little filter in which insertions turn other elements into false positives.  D spends
		// T's output and is relevant through nothing else; T and a few unrelated X match a watched item and insert
		// their outpoints.  With D before T in the block, T's own outpoint may already "be there" (all its bits set
		// by the X's) when T is finally checked - D has to be found regardless.
		c.Len, c.K, c.Flags = rapid.IntRange(2, 4).Draw(t, "fplen"), uint32(rapid.IntRange(1, 3).Draw(t, "fpk")), 1
		c.Txs = nil
		c.Txs = append(c.Txs, c10Tx{Ins: []c10In{{Src: -1, Out: 0, Script: scriptSpec{Cls: "empty"}}}, // T
			Outs: []scriptSpec{{Cls: "pushes", Items: []int{5 % len(c.Pool)}, Enc: []int{0}}}})
		c.Txs = append(c.Txs, c10Tx{LockTime: 1, Ins: []c10In{{Src: 0, Out: 0, Script: scriptSpec{Cls: "empty"}}}, // D
			Outs: []scriptSpec{{Cls: "empty"}}})
		nx := rapid.IntRange(1, 4).Draw(t, "nx")
		for i := 0; i < nx; i++ {
			x := c10Tx{LockTime: uint32(10 + i), Ins: []c10In{{Src: -2, Out: uint32(i), Script: scriptSpec{Cls: "empty"}}}}
			for k := rapid.IntRange(1, 4).Draw(t, "xouts"); k > 0; k-- {
				x.Outs = append(x.Outs, scriptSpec{Cls: "pushes", Items: []int{5 % len(c.Pool)}, Enc: []int{0}})
			}
			c.Txs = append(c.Txs, x)
		}
		c.Preload = []c10Preload{{Kind: "item", A: 5 % len(c.Pool)}}
		c.PermTag = "random"
		c.Perm = []int{1} // D first
		rest := rapid.Permutation(append([]int{0}, seqInts(len(c.Txs))[2:]...)).Draw(t, "fpperm")
		c.Perm = append(c.Perm, rest...)
		return c
	}
	if !c10ForceWeb && rapid.IntRange(0, 5).Draw(t, "chainmode") == 0 {
		// directed: a spend chain P -> Y1 -> Y2 ... in which every link becomes relevant only through its
		// predecessor: P's output carries a watched item; each Yk spends the previous output and carries,
		// as a data element, the serialisation of exactly the outpoint it spends.  Any block order.
		depth := rapid.IntRange(2, 5).Draw(t, "depth")
		if rapid.IntRange(0, 29).Draw(t, "deep") == 0 {
			depth = rapid.IntRange(40, 90).Draw(t, "deepdepth") // long chains: re-check cascades must not give up
		}
		c.Flags = 1
		c.Len, c.K = 2000, 10
		c.Txs = nil
		// the relevant output may sit at a high index (the outpoint's index is a 32-bit little-endian number)
		pad := func() int {
			switch rapid.IntRange(0, 39).Draw(t, "padcls") {
			case 0, 1, 2, 3:
				return rapid.SampledFrom([]int{1, 15, 16, 254, 255, 256, 257}).Draw(t, "pad")
			case 4:
				return rapid.SampledFrom([]int{65535, 65536}).Draw(t, "padbig")
			}
			return 0
		}
		p0 := pad()
		c.Txs = append(c.Txs, c10Tx{Ins: []c10In{{Src: -1, Out: 0, Script: scriptSpec{Cls: "empty"}}}, PadOuts: p0,
			Outs: []scriptSpec{{Cls: "pushes", Items: []int{5 % len(c.Pool)}, Enc: []int{0}}}})
		for k := 1; k <= depth; k++ {
			pk := pad()
			c.Txs = append(c.Txs, c10Tx{LockTime: uint32(k), Ins: []c10In{{Src: k - 1, Out: uint32(p0), Script: scriptSpec{Cls: "empty"}}}, PadOuts: pk,
				Outs: []scriptSpec{{Cls: "pushes", Items: []int{selfItemBase}, Enc: []int{rapid.IntRange(0, 2).Draw(t, "enc")}}}})
			p0 = pk
		}
		for i := rapid.IntRange(0, 2).Draw(t, "noise"); i > 0; i-- {
			c.Txs = append(c.Txs, c10Tx{LockTime: uint32(90 + i), Ins: []c10In{{Src: -2, Out: uint32(i), Script: scriptSpec{Cls: "empty"}}},
				Outs: []scriptSpec{{Cls: "p2pkh", Items: []int{2}}}})
		}
		c.Preload = []c10Preload{{Kind: "item", A: 5 % len(c.Pool)}}
		c.PermTag = "random"
		c.Perm = rapid.Permutation(seqInts(len(c.Txs))).Draw(t, "perm")
		if rapid.IntRange(0, 2).Draw(t, "rev") == 0 { // children strictly before their parents: the longest cascades
			c.PermTag = "reverse-topological"
			for i := range c.Perm {
				c.Perm[i] = len(c.Txs) - 1 - i
			}
		}
		return c
	}
	if c10ForceWeb || rapid.IntRange(0, 5).Draw(t, "webmode") == 0 {
		// directed: a small web instead of a chain.  The first transaction pays a watched item on several outputs;
		// every later one spends one to three outputs of earlier ones (any of them) and its outputs pay the watched
		// item, carry the serialisation of an outpoint it spends, or nothing.  A transaction can thus match a second
		// time for a new reason (an output that starts to match once the outpoint it names has been inserted) after
		// its dependants were already looked at.  Orders: random and children-first.
		c.Flags = byte(rapid.SampledFrom([]int{1, 1, 1, 2}).Draw(t, "webflags"))
		c.Len, c.K = 2000, 10
		if c10ForceWeb || rapid.IntRange(0, 2).Draw(t, "webdense") == 0 {
			// a filter of 16..48 bits: an inserted outpoint makes unrelated elements match (ordinary false positives), so
			// transactions start to match for reasons that only arise while the block is being scanned
			c.Len, c.K = rapid.IntRange(2, 6).Draw(t, "weblen"), uint32(rapid.IntRange(1, 3).Draw(t, "webk"))
		}
		c.Txs = nil
		watched := scriptSpec{Cls: "pushes", Items: []int{5 % len(c.Pool)}, Enc: []int{0}}
		if c.Flags == 2 {
			watched = scriptSpec{Cls: "p2pk", Items: []int{0}}
		}
		first := c10Tx{Ins: []c10In{{Src: -1, Out: 0, Script: scriptSpec{Cls: "empty"}}}}
		for k := rapid.IntRange(1, 3).Draw(t, "webq"); k > 0; k-- {
			first.Outs = append(first.Outs, watched)
		}
		c.Txs = append(c.Txs, first)
		nweb := rapid.IntRange(2, 6).Draw(t, "nweb")
		for ti := 1; ti <= nweb; ti++ {
			tx := c10Tx{LockTime: uint32(ti)}
			for k := rapid.IntRange(1, 3).Draw(t, "webin"); k > 0; k-- {
				src := rapid.IntRange(0, ti-1).Draw(t, "websrc")
				tx.Ins = append(tx.Ins, c10In{Src: src, Out: uint32(rapid.IntRange(0, 2).Draw(t, "webout")), Script: scriptSpec{Cls: "empty"}})
			}
			for k := rapid.IntRange(1, 3).Draw(t, "webouts"); k > 0; k-- {
				switch rapid.IntRange(0, 4).Draw(t, "webocls") {
				case 4: // an unwatched element: relevant only if the filter comes to match it by accident
					tx.Outs = append(tx.Outs, scriptSpec{Cls: "pushes", Items: []int{rapid.IntRange(0, len(c.Pool)-1).Draw(t, "webitem")}, Enc: []int{0}})
				case 0:
					tx.Outs = append(tx.Outs, watched)
				case 1, 2:
					tx.Outs = append(tx.Outs, scriptSpec{Cls: "pushes", Items: []int{selfItemBase + rapid.IntRange(0, 2).Draw(t, "webself")}, Enc: []int{0}})
				default:
					tx.Outs = append(tx.Outs, scriptSpec{Cls: "empty"})
				}
			}
			c.Txs = append(c.Txs, tx)
		}
		c.Preload = []c10Preload{{Kind: "item", A: 5 % len(c.Pool)}}
		if c.Flags == 2 {
			c.Preload = []c10Preload{{Kind: "item", A: 0}}
		}
		if rapid.Bool().Draw(t, "webtxid") { // one transaction is watched by its id: it matches without changing the filter
			c.Preload = append(c.Preload, c10Preload{Kind: "txid", A: rapid.IntRange(0, nweb).Draw(t, "webtxidwhich")})
		}
		if rapid.IntRange(0, 3).Draw(t, "webspread") == 0 {
			c.Filler, c.FillerSpread = rapid.SampledFrom([]int{60, 64, 100, 256, 300}).Draw(t, "webfiller"), true
		}
		c.PermTag = "random"
		c.Perm = rapid.Permutation(seqInts(len(c.Txs))).Draw(t, "webperm")
		if rapid.Bool().Draw(t, "webrev") {
			c.PermTag = "reverse-topological"
			for i := range c.Perm {
				c.Perm[i] = len(c.Txs) - 1 - i
			}
		}
		return c
	}
	for ti := 0; ti < ntx; ti++ {
		var tx c10Tx
		tx.LockTime = uint32(ti)
		nin := rapid.IntRange(1, 4).Draw(t, "nin")
		for i := 0; i < nin; i++ {
			in := c10In{Script: genScriptSpec(t, len(c.Pool), true)}
			if ti > 0 && i > 0 && tx.Ins[i-1].Src >= 0 && rapid.IntRange(0, 2).Draw(t, "sameparent") == 0 {
				in.Src = tx.Ins[i-1].Src // another output of the same parent
				in.Out = tx.Ins[i-1].Out + 1
			} else if ti > 0 && rapid.IntRange(0, 2).Draw(t, "internal") > 0 {
				in.Src = rapid.IntRange(0, ti-1).Draw(t, "src")
				in.Out = uint32(rapid.IntRange(0, 3).Draw(t, "srcout"))
			} else if i == 0 && rapid.IntRange(0, 7).Draw(t, "coinbase") == 0 {
				in.Src = nullSrc // coinbase-style: only its script's pushes (or the null outpoint itself) can make it relevant
			} else {
				in.Src = -rapid.IntRange(1, 3).Draw(t, "ext")
				in.Out = uint32(rapid.IntRange(0, 2).Draw(t, "extout"))
			}
			tx.Ins = append(tx.Ins, in)
		}
		if rapid.IntRange(0, 24).Draw(t, "padins") == 0 { // hundreds of unrelated inputs in front of the ones that matter
			tx.PadIns = rapid.SampledFrom([]int{31, 32, 33, 255, 256, 257, 287, 288, 300, 320, 511, 512, 600}).Draw(t, "npadins")
		}
		nout := rapid.IntRange(0, 4).Draw(t, "nout")
		for i := 0; i < nout; i++ {
			tx.Outs = append(tx.Outs, genScriptSpec(t, len(c.Pool), false))
		}
		c.Txs = append(c.Txs, tx)
	}
	if rapid.IntRange(0, 11).Draw(t, "spread") == 0 {
		// the block has a few hundred other transactions, the ones that matter stand far apart
		c.Filler, c.FillerSpread = rapid.SampledFrom([]int{60, 64, 100, 256, 300, 1000}).Draw(t, "nfiller"), true
	}
	if rapid.IntRange(0, 9).Draw(t, "dup") == 0 {
		for k := rapid.IntRange(1, 2).Draw(t, "ndup"); k > 0; k-- {
			c.DupPos = append(c.DupPos, rapid.IntRange(0, 1000).Draw(t, "duppos"))
		}
	}
	np := rapid.IntRange(0, 4).Draw(t, "npre")
	for i := 0; i < np; i++ {
		p := c10Preload{Kind: rapid.SampledFrom([]string{"item", "item", "item", "item", "item", "txid", "txid", "outpoint", "outpoint", "extoutpoint", "extoutpoint", "nulloutpoint"}).Draw(t, "pkind")}
		p.A = rapid.IntRange(0, 12).Draw(t, "pa")
		p.B = uint32(rapid.IntRange(0, 3).Draw(t, "pb"))
		c.Preload = append(c.Preload, p)
	}
	switch rapid.IntRange(0, 3).Draw(t, "permkind") {
	case 0:
		c.PermTag = "topological"
		for i := 0; i < ntx; i++ {
			c.Perm = append(c.Perm, i)
		}
	case 1:
		c.PermTag = "reverse-topological"
		for i := ntx - 1; i >= 0; i-- {
			c.Perm = append(c.Perm, i)
		}
	case 2:
		c.PermTag = "random"
		c.Perm = rapid.Permutation(seqInts(ntx)).Draw(t, "perm")
	default:
		c.PermTag = "ctor" // resolved below: sorted by txid
	}
	if c.PermTag == "ctor" {
		txs, err := buildTxs(c)
		if err == nil {
			idx := seqInts(ntx)
			sort.Slice(idx, func(a, b int) bool {
				// CTOR orders by txid interpreted as a little-endian number = reversed byte compare
				ha, hb := txs[idx[a]].hash, txs[idx[b]].hash
				for i := 31; i >= 0; i-- {
					if ha[i] != hb[i] {
						return ha[i] < hb[i]
					}
				}
				return false
			})
			c.Perm = idx
		}
	}
	return c
}

func seqInts(n int) []int {
	out := make([]int, n)
	for i := range out {
		out[i] = i
	}
	return out
}

// Saved cases that once failed on a tree believed to be correct (see DESIGN.md 8.2 #16); they run first.
//
//go:embed testdata/c10-*.json
var c10Saved embed.FS

func c10SavedCases() (out []c10Case) {
	ents, _ := c10Saved.ReadDir("testdata")
	for _, e := range ents {
		raw, err := c10Saved.ReadFile("testdata/" + e.Name())
		var doc struct {
			Case c10Case `json:"case"`
		}
		if err == nil && json.Unmarshal(raw, &doc) == nil {
			out = append(out, doc.Case)
		}
	}
	return out
}

var kC10 = register(&Kind[c10Case]{Prop: "C10", Name: "filtertx", Gen: genC10, Eval: evalC10})

// c10ForceWeb makes genC10 produce only its small-web mode with a filter of a few dozen bits (generators run one
// at a time within a shard).  These cases are tiny, so thousands of them are affordable: what needs two or three
// accidental matches to line up in a four-transaction pattern gets its chance.
var c10ForceWeb bool

var kC10Web = register(&Kind[c10Case]{Prop: "C10", Name: "web-dense", Eval: evalC10,
	Gen: func(t *rapid.T) c10Case {
		c10ForceWeb = true
		defer func() { c10ForceWeb = false }()
		return genC10(t)
	}})

func TestC10(t *testing.T) {
	propTest(t, "C10", func(ev *Ev) {
		ev.Rule("blocks of 1..10 transactions built from a script grammar (P2PK, multisig, P2PKH, P2SH, nulldata, push sequences with "+
			"OP_0 / direct / PUSHDATA1/2 encodings, truncated = unparsable, empty) over a small item pool so pushes hit the filter; "+
			"random intra-block spend DAG plus external outpoints; filter small (2..64 bytes, false positives occur) or large, "+
			"preloaded with items / txids / outpoints; 3 update flags; block order topological, reverse, CTOR (by txid) or random. "+
			"Oracles: (tx) BIP37 IsRelevantAndUpdate on an independent bloom model - same answer and same bits afterwards, for "+
			"every transaction against a fresh filter; (block) reported set is a superset of the least fixpoint over exact sets and "+
			"a subset of what the final filter state matches; both merkle-block builders report the same ascending index list. "+
			"Non-trivial = some transaction matched for a stated reason, or is relevant only through another block transaction. "+
			"Pushes never have length 36 (cannot coincide with an outpoint serialisation).",
			"txscript.PushedData / GetScriptClass (bchd) define 'data push' and script class; PushedData is cross-checked against the grammar's own push list",
			"refBloom pinned to Bitcoin Core vectors (C09)")
		refSelfBloom(ev)
		if len(ev.harnessErrors) > 0 {
			return
		}
		for _, c := range c10SavedCases() {
			kC10.One(ev, c)
		}
		// one block of more than 2^16 transactions per shard: a spend chain laid out children first behind 65534..65537
		// unrelated transactions
		{
			pool := []HexBytes{bytes.Repeat([]byte{2}, 33), bytes.Repeat([]byte{4}, 65), bytes.Repeat([]byte{7}, 20), bytes.Repeat([]byte{9}, 32), {}, {0xaa, 0xbb, 0xcc}}
			big := c10Case{Pool: pool, Len: 2000, K: 10, Tweak: uint32(seedEnv), Flags: 1, Filler: 65534 + shard%4, PermTag: "reverse-topological",
				Preload: []c10Preload{{Kind: "item", A: 5}}}
			big.Txs = append(big.Txs, c10Tx{Ins: []c10In{{Src: -1, Out: 0, Script: scriptSpec{Cls: "empty"}}}, Outs: []scriptSpec{{Cls: "pushes", Items: []int{5}, Enc: []int{0}}}})
			for k := 1; k <= 3; k++ {
				big.Txs = append(big.Txs, c10Tx{LockTime: uint32(k), Ins: []c10In{{Src: k - 1, Out: 0, Script: scriptSpec{Cls: "empty"}}},
					Outs: []scriptSpec{{Cls: "pushes", Items: []int{selfItemBase}, Enc: []int{0}}}})
			}
			big.Perm = []int{3, 2, 1, 0}
			kC10.One(ev, big)
		}
		kC10.Run(t, ev, perShard(pick(6000, 700000)))
		kC10Web.Run(t, ev, perShard(pick(12000, 400000)))
		ev.requireClasses("C10:out-class=pubkey", "C10:out-class=multisig", "C10:out-class=pubkeyhash", "C10:out-class=scripthash",
			"C10:out-class=nulldata", "C10:out-class=nonstandard", "C10:tx-reason=txid", "C10:tx-reason=output-push",
			"C10:tx-reason=spent-outpoint", "C10:tx-reason=input-push", "C10:tx-reason=updated",
			"C10:relevant-only-through-another-block-tx", "C10:spender-before-funder", "C10:perm=ctor", "C10:flags=2")
	})
}
