package harness

// C11 Built merkle-block proofs verify and reveal exactly the chosen transactions.
// Also holds the reference partial-merkle-tree builder / extractor used by C12.

import (
	"bytes"
	"fmt"
	"testing"

	"github.com/gcash/bchd/chaincfg/chainhash"
	"github.com/gcash/bchd/wire"
	"github.com/gcash/bchutil"
	"github.com/gcash/bchutil/bloom"
	"github.com/gcash/bchutil/merkleblock"
	"pgregory.net/rapid"
)

type h32 = [32]byte

func hashPair(l, r h32) h32 {
	var buf [64]byte
	copy(buf[:32], l[:])
	copy(buf[32:], r[:])
	var out h32
	copy(out[:], dsha256(buf[:]))
	return out
}

// refLevels computes the full merkle tree bottom-up (last node duplicated on odd
// levels): levels[0] = leaves, levels[top] = {root}.
func refLevels(leaves []h32) [][]h32 {
	levels := [][]h32{leaves}
	cur := leaves
	for len(cur) > 1 {
		var next []h32
		for i := 0; i < len(cur); i += 2 {
			r := cur[i]
			if i+1 < len(cur) {
				r = cur[i+1]
			}
			next = append(next, hashPair(cur[i], r))
		}
		levels = append(levels, next)
		cur = next
	}
	return levels
}

// refPMTBuild is BIP37's partial merkle tree construction over the full tree.
func refPMTBuild(leaves []h32, matched []bool) (hashes []h32, flagBits []bool) {
	levels := refLevels(leaves)
	// anyMatch[h][pos]
	any := make([][]bool, len(levels))
	any[0] = matched
	for h := 1; h < len(levels); h++ {
		any[h] = make([]bool, len(levels[h]))
		for p := range any[h] {
			any[h][p] = any[h-1][2*p] || (2*p+1 < len(any[h-1]) && any[h-1][2*p+1])
		}
	}
	var walk func(h, pos int)
	walk = func(h, pos int) {
		flagBits = append(flagBits, any[h][pos])
		if h == 0 || !any[h][pos] {
			hashes = append(hashes, levels[h][pos])
			return
		}
		walk(h-1, 2*pos)
		if 2*pos+1 < len(levels[h-1]) {
			walk(h-1, 2*pos+1)
		}
	}
	walk(len(levels)-1, 0)
	return
}

func packFlagBits(bits []bool) []byte {
	out := make([]byte, (len(bits)+7)/8)
	for i, b := range bits {
		if b {
			out[i/8] |= 1 << uint(i%8)
		}
	}
	return out
}

type refMatch struct {
	Pos  uint32
	Hash h32
}

// refTxnCap is the transaction-count cap documented for the extractor: maximum block
// payload divided by the smallest possible transaction (61 bytes).
func refTxnCap() uint64 { return uint64(wire.MaxBlockPayload()) / 61 }

// refPMTExtract evaluates a merkle-block message functionally (no cursors shared
// through mutable state): returns root, matches, and "" or the rejection reason.
func refPMTExtract(count uint32, hashes []h32, flags []byte) (root h32, matches []refMatch, reason string) {
	n := uint64(count)
	if n == 0 {
		return root, nil, "count 0"
	}
	if n > refTxnCap() {
		return root, nil, "count too large"
	}
	if uint64(len(hashes)) > n {
		return root, nil, "more hashes than transactions"
	}
	nbits := len(flags) * 8
	if nbits < len(hashes) {
		return root, nil, "fewer flag bits than hashes"
	}
	width := func(h uint) uint64 { return (n + (uint64(1) << h) - 1) >> h }
	height := uint(0)
	for width(height) > 1 {
		height++
	}
	bit := func(i int) bool { return flags[i/8]>>(uint(i)%8)&1 == 1 }
	// node returns (hash, bits consumed up to, hashes consumed up to, failure reason)
	var node func(h uint, pos uint64, bi, hi int) (h32, int, int, string)
	node = func(h uint, pos uint64, bi, hi int) (h32, int, int, string) {
		if bi >= nbits {
			return h32{}, bi, hi, "ran out of flag bits"
		}
		parent := bit(bi)
		bi++
		if h == 0 || !parent {
			if hi >= len(hashes) {
				return h32{}, bi, hi, "ran out of hashes"
			}
			hv := hashes[hi]
			hi++
			if h == 0 && parent {
				matches = append(matches, refMatch{uint32(pos), hv})
			}
			return hv, bi, hi, ""
		}
		l, bi, hi, why := node(h-1, pos*2, bi, hi)
		if why != "" {
			return h32{}, bi, hi, why
		}
		r := l
		if pos*2+1 < width(h-1) {
			r, bi, hi, why = node(h-1, pos*2+1, bi, hi)
			if why != "" {
				return h32{}, bi, hi, why
			}
			if r == l {
				return h32{}, bi, hi, "equal children"
			}
		}
		return hashPair(l, r), bi, hi, ""
	}
	rt, bi, hi, why := node(height, 0, 0, 0)
	if why != "" {
		return root, nil, why
	}
	if (bi+7)/8 != len(flags) {
		return root, nil, "unused flag byte"
	}
	if hi != len(hashes) {
		return root, nil, "unused hash"
	}
	return rt, matches, ""
}

// ---- C11 -----------------------------------------------------------------------------

type c11Case struct {
	N      int    `json:"n"`
	Subset []int  `json:"subset"` // chosen positions (any order, duplicates allowed)
	Mode   string `json:"mode"`   // txnset | filter
	// txnset decoration
	Foreign int  `json:"foreign"` // number of foreign hashes mixed into the set
	Reverse bool `json:"reverse"`
	Salt    int  `json:"salt"` // varies the transactions
	// filter mode only: the filter is not loaded (LoadFilter(nil) / Unload): the empty subset, canonical proof
	Unloaded bool `json:"unloaded,omitempty"`
}

func minimalTx(i, salt int) *wire.MsgTx {
	tx := wire.NewMsgTx(1)
	var prev chainhash.Hash
	tx.AddTxIn(wire.NewTxIn(wire.NewOutPoint(&prev, 0xffffffff), nil))
	tx.AddTxOut(wire.NewTxOut(int64(salt), nil, wire.TokenData{}))
	tx.LockTime = uint32(i)
	return tx
}

func evalC11(c c11Case, o *Obs) error {
	if c.N < 1 || c.N > 520000 {
		return hbug("bad n")
	}
	blk := wire.NewMsgBlock(&wire.BlockHeader{Version: 2, Nonce: uint32(c.Salt), Bits: 0x1d00ffff})
	leaves := make([]h32, c.N)
	for i := 0; i < c.N; i++ {
		tx := minimalTx(i, c.Salt)
		blk.AddTransaction(tx)
		leaves[i] = h32(tx.TxHash())
	}
	chosen := make([]bool, c.N)
	for _, s := range c.Subset {
		chosen[((s%c.N)+c.N)%c.N] = true
	}
	var msg *wire.MsgMerkleBlock
	var idx []uint32
	block := bchutil.NewBlock(blk)
	switch c.Mode {
	case "txnset":
		var set []*chainhash.Hash
		for _, s := range c.Subset { // in the given order, duplicates kept
			h := chainhash.Hash(leaves[((s%c.N)+c.N)%c.N])
			set = append(set, &h)
		}
		for i := 0; i < c.Foreign; i++ {
			h := chainhash.Hash(hashPair(h32{byte(i), 0xFE}, h32{}))
			if i%2 == 1 || c.Salt%3 == 0 {
				// a hash that is not in the block but agrees with one of its transactions in all bytes but one
				h = chainhash.Hash(leaves[(i*7+c.Salt)%c.N])
				switch (c.Salt + i) % 9 {
				case 6: // differences that cancel under a sloppy comparison: top bit of two words
					h[3] ^= 0x80
					h[19] ^= 0x80
				case 7: // one word up, another down
					h[4] += 3
					h[12] -= 3
				case 8: // the same value into two words
					h[8] ^= 0x21
					h[28] ^= 0x21
				default:
					h[[]int{31, 8, 0, 16, 7, 24}[(c.Salt+i)%6]] ^= 0x40
				}
			}
			set = append(set, &h)
		}
		if c.Reverse {
			for i, j := 0, len(set)-1; i < j; i, j = i+1, j-1 {
				set[i], set[j] = set[j], set[i]
			}
		}
		setBefore := make([]chainhash.Hash, len(set))
		setPtrs := append([]*chainhash.Hash{}, set...)
		for i, h := range set {
			setBefore[i] = *h
		}
		msg, idx = merkleblock.NewMerkleBlockWithTxnSet(block, set)
		for i := range set { // the caller's hash list is an argument, not scratch space
			if set[i] != setPtrs[i] || *set[i] != setBefore[i] {
				return fmt.Errorf("n=%d: NewMerkleBlockWithTxnSet modified the caller's hash list (entry %d of %d)", c.N, i, len(set))
			}
		}
		if msgAgain, idxAgain := merkleblock.NewMerkleBlockWithTxnSet(bchutil.NewBlock(blk), set); !u32Equal(idxAgain, idx) || !msgEqual(msgAgain, msg) {
			return fmt.Errorf("n=%d subset %v: building the proof a second time from the same hash list reveals %v, the first time %v", c.N, c.Subset, idxAgain, idx)
		}
	case "filter":
		mk := func() (*bloom.Filter, *refBloom) {
			f := bloom.LoadFilter(wire.NewMsgFilterLoad(make([]byte, 20000), 10, uint32(c.Salt), wire.BloomUpdateNone))
			m := newRefBloom(20000, 10, uint32(c.Salt), 0)
			if c.Unloaded {
				o.Class("C11:filter-not-loaded")
				m.loaded = false
				if f = bloom.LoadFilter(nil); c.Salt%2 == 0 {
					f = bloom.LoadFilter(wire.NewMsgFilterLoad(bytes.Repeat([]byte{0xff}, 8), 1, 0, wire.BloomUpdateNone))
					f.Unload()
				}
				return f, m
			}
			for i, ch := range chosen {
				if ch {
					f.AddHash((*chainhash.Hash)(&leaves[i]))
					m.add(leaves[i][:])
				}
			}
			return f, m
		}
		f1, m := mk()
		// the chosen subset is what the filter induces (false positives included)
		for i := range chosen {
			b := &builtTx{msg: blk.Transactions[i], hash: chainhash.Hash(leaves[i]), outPsh: [][][]byte{nil}, outCls: nil, inPsh: [][][]byte{nil}}
			ok, _ := modelMatchTx(m, b, false)
			if ok && !chosen[i] {
				o.Class("C11:bloom-false-positive-in-subset")
			}
			chosen[i] = ok
		}
		msg, idx = merkleblock.NewMerkleBlockWithFilter(block, f1)
		f2, _ := mk()
		msg2, idx2 := bloom.NewMerkleBlock(bchutil.NewBlock(blk), f2)
		// a proof must stay valid while further proofs are built (no storage shared between calls)
		other := wire.NewMsgBlock(&wire.BlockHeader{Version: 2, Nonce: uint32(c.Salt) + 99})
		for i := 0; i < c.N+1 && i < 40; i++ {
			other.AddTransaction(minimalTx(i, c.Salt+1))
		}
		f3 := bloom.LoadFilter(wire.NewMsgFilterLoad(bytes.Repeat([]byte{0xff}, 8), 1, 0, wire.BloomUpdateNone)) // matches everything
		bloom.NewMerkleBlock(bchutil.NewBlock(other), f3)
		f4 := bloom.LoadFilter(wire.NewMsgFilterLoad(make([]byte, 8), 1, 0, wire.BloomUpdateNone)) // matches nothing
		bloom.NewMerkleBlock(bchutil.NewBlock(other), f4)
		merkleblock.NewMerkleBlockWithFilter(bchutil.NewBlock(other), f4)
		if !u32Equal(idx, idx2) || !msgEqual(msg, msg2) {
			return fmt.Errorf("n=%d subset %v: bloom.NewMerkleBlock and merkleblock.NewMerkleBlockWithFilter differ: %v / %v, hashes %d/%d flags %x/%x",
				c.N, c.Subset, idx2, idx, len(msg2.Hashes), len(msg.Hashes), msg2.Flags, msg.Flags)
		}
	default:
		return hbug("bad mode")
	}
	var want []uint32
	var wantHashes []h32
	for i, ch := range chosen {
		if ch {
			want = append(want, uint32(i))
			wantHashes = append(wantHashes, leaves[i])
		}
	}
	nsel := len(want)
	if c.N >= 2 && nsel > 0 && nsel < c.N {
		o.NT()
	}
	switch {
	case nsel == 0:
		o.Class("C11:subset-empty")
	case nsel == c.N:
		o.Class("C11:subset-full")
	case nsel == 1:
		o.Class("C11:subset-singleton")
	default:
		o.Class("C11:subset-proper")
	}
	if c.N&(c.N-1) != 0 {
		o.Class("C11:n-not-power-of-two")
	}
	o.Class("C11:mode=" + c.Mode)
	desc := fmt.Sprintf("n=%d mode=%s chosen=%v", c.N, c.Mode, clipU32(want))
	if !u32Equal(idx, want) {
		return fmt.Errorf("%s: matched index list %v", desc, clipU32(idx))
	}
	rh, rbits := refPMTBuild(leaves, chosen)
	if msg.Transactions != uint32(c.N) || msg.Header != blk.Header {
		return fmt.Errorf("%s: message header / transaction count wrong (%d)", desc, msg.Transactions)
	}
	if len(msg.Hashes) != len(rh) {
		return fmt.Errorf("%s: message has %d hashes, canonical partial merkle tree has %d", desc, len(msg.Hashes), len(rh))
	}
	for i := range rh {
		if h32(*msg.Hashes[i]) != rh[i] {
			return fmt.Errorf("%s: hash %d differs from the canonical partial merkle tree", desc, i)
		}
	}
	if wantFlags := packFlagBits(rbits); !bytes.Equal(msg.Flags, wantFlags) {
		return fmt.Errorf("%s: flag bytes %x, canonical %x", desc, msg.Flags, wantFlags)
	}
	// extraction by the implementation and by the reference
	levels := refLevels(leaves)
	root := levels[len(levels)-1][0]
	pb := merkleblock.NewMerkleBlockFromMsg(*msg)
	got := pb.ExtractMatches()
	if got == nil {
		return fmt.Errorf("%s: ExtractMatches rejects the proof the library built", desc)
	}
	if h32(*got) != root {
		return fmt.Errorf("%s: extracted root %x, block merkle root %x", desc, got[:], root[:])
	}
	gm, gi := pb.GetMatches(), pb.GetItems()
	if !u32Equal(gi, want) || len(gm) != len(wantHashes) {
		return fmt.Errorf("%s: extracted positions %v (%d hashes)", desc, clipU32(gi), len(gm))
	}
	for i := range gm {
		if h32(*gm[i]) != wantHashes[i] {
			return fmt.Errorf("%s: extracted hash %d is not the chosen transaction", desc, i)
		}
	}
	// a wallet that verifies the same proof object twice gets the same answer twice
	if again := pb.ExtractMatches(); again == nil || h32(*again) != root || !u32Equal(pb.GetItems(), want) || len(pb.GetMatches()) != len(wantHashes) {
		return fmt.Errorf("%s: a second ExtractMatches on the same object gives root %v, positions %v (%d hashes); the first gave the block's root and %d matches",
			desc, again, clipU32(pb.GetItems()), len(pb.GetMatches()), len(want))
	}
	rroot, rm, why := refPMTExtract(msg.Transactions, toH32(msg.Hashes), msg.Flags)
	if why != "" || rroot != root || len(rm) != len(want) {
		return fmt.Errorf("%s: reference extractor: reason %q root ok=%v matches %d", desc, why, rroot == root, len(rm))
	}
	for i := range rm {
		if rm[i].Pos != want[i] || rm[i].Hash != wantHashes[i] {
			return fmt.Errorf("%s: reference extractor match %d differs", desc, i)
		}
	}
	return nil
}

func clipU32(a []uint32) []uint32 {
	if len(a) > 24 {
		return a[:24]
	}
	return a
}

func toH32(hs []*chainhash.Hash) []h32 {
	out := make([]h32, len(hs))
	for i, h := range hs {
		out[i] = h32(*h)
	}
	return out
}

func msgEqual(a, b *wire.MsgMerkleBlock) bool {
	if a.Header != b.Header || a.Transactions != b.Transactions || len(a.Hashes) != len(b.Hashes) || !bytes.Equal(a.Flags, b.Flags) {
		return false
	}
	for i := range a.Hashes {
		if *a.Hashes[i] != *b.Hashes[i] {
			return false
		}
	}
	return true
}

func genC11(t *rapid.T) c11Case {
	c := c11Case{Salt: rapid.IntRange(0, 1000).Draw(t, "salt")}
	c.Mode = rapid.SampledFrom([]string{"txnset", "txnset", "filter"}).Draw(t, "mode")
	if c.Mode == "filter" && rapid.IntRange(0, 7).Draw(t, "unloaded") == 0 {
		c.Unloaded = true
	}
	switch rapid.IntRange(0, 9).Draw(t, "ncls") {
	case 0:
		c.N = rapid.IntRange(66, 4000).Draw(t, "nbig")
		if c.Mode == "filter" {
			c.N = rapid.IntRange(66, 600).Draw(t, "nbigf")
		}
	case 1, 2:
		c.N = rapid.SampledFrom([]int{1, 2, 3, 4, 5, 7, 8, 9, 15, 16, 17, 31, 32, 33, 63, 64, 65, 127, 129, 255, 257}).Draw(t, "nedge")
	default:
		c.N = rapid.IntRange(1, 65).Draw(t, "n")
	}
	n := c.N
	switch rapid.IntRange(0, 9).Draw(t, "scls") {
	case 0: // empty
	case 1: // all
		c.Subset = seqInts(n)
	case 2:
		c.Subset = []int{rapid.IntRange(0, n-1).Draw(t, "single")}
	case 3:
		c.Subset = []int{n - 1}
	case 4:
		c.Subset = []int{0, n - 1}
	case 5: // alternating
		for i := rapid.IntRange(0, 1).Draw(t, "alt"); i < n; i += 2 {
			c.Subset = append(c.Subset, i)
		}
	case 6: // right edge of some level
		lvl := uint(rapid.IntRange(0, 12).Draw(t, "lvl"))
		start := ((n - 1) >> lvl) << lvl
		for i := start; i < n; i++ {
			c.Subset = append(c.Subset, i)
		}
	default:
		k := rapid.IntRange(1, 12).Draw(t, "k")
		if rapid.Bool().Draw(t, "dense") {
			k = rapid.IntRange(1, n).Draw(t, "kd")
			if k > 300 {
				k = 300
			}
		}
		for i := 0; i < k; i++ {
			c.Subset = append(c.Subset, rapid.IntRange(0, n-1).Draw(t, "s"))
		}
	}
	if c.Mode == "txnset" {
		c.Foreign = rapid.IntRange(0, 3).Draw(t, "foreign")
		c.Reverse = rapid.Bool().Draw(t, "reverse")
	}
	return c
}

var kC11 = register(&Kind[c11Case]{Prop: "C11", Name: "build", Gen: genC11, Eval: evalC11})

// ---- kind: buildersdag (blocks with intra-block spends, all update flags, any order) -------

func evalC11Dag(c c10Case, o *Obs) error {
	if c.Len < 1 || c.Len > 36000 || c.K > 50 || len(c.Txs) == 0 {
		return hbug("bad case")
	}
	txs, err := buildTxs(c)
	if err != nil {
		return err
	}
	items := preloadItems(c, txs)
	perm := normPerm(c.Perm, len(txs))
	blk := wire.NewMsgBlock(&wire.BlockHeader{Version: 1, Nonce: 5})
	leaves := make([]h32, len(perm))
	for pos, pi := range perm {
		blk.AddTransaction(txs[pi].msg)
		leaves[pos] = h32(txs[pi].hash)
	}
	for i := range leaves { // the partial-merkle-tree rules need distinct transactions
		for j := i + 1; j < len(leaves); j++ {
			if leaves[i] == leaves[j] {
				o.Class("C11:dag-duplicate-transactions(skipped)")
				return nil
			}
		}
	}
	fa, _ := c10Filter(c, items)
	ma, ia := merkleblock.NewMerkleBlockWithFilter(bchutil.NewBlock(blk), fa)
	fb, _ := c10Filter(c, items)
	mb, ib := bloom.NewMerkleBlock(bchutil.NewBlock(blk), fb)
	o.Class("C11:dag-flags=%d", c.Flags)
	if len(ia) > 0 && len(ia) < len(perm) {
		o.NT()
	}
	if !u32Equal(ia, ib) || !msgEqual(ma, mb) {
		return fmt.Errorf("block of %d transactions (order %v, flags %d): merkleblock.NewMerkleBlockWithFilter reveals %v, bloom.NewMerkleBlock reveals %v (messages equal: %v)",
			len(perm), perm, c.Flags, ia, ib, msgEqual(ma, mb))
	}
	// the subset the filter induces contains every transaction relevant to it (exact-set fixpoint), in any order
	relevant, _ := exactRelevant(c.Flags, txs, items)
	revealed := map[uint32]bool{}
	for _, i := range ia {
		revealed[i] = true
	}
	for pos, pi := range perm {
		if relevant[pi] && !revealed[uint32(pos)] {
			return fmt.Errorf("block of %d transactions (order %v, flags %d): the proof reveals %v but omits position %d, a transaction relevant to the filter",
				len(perm), perm, c.Flags, ia, pos)
		}
	}
	// both messages are the canonical tree for the revealed set and extract to it
	chosen := make([]bool, len(perm))
	for _, i := range ia {
		if int(i) >= len(perm) {
			return fmt.Errorf("matched index %d outside the block", i)
		}
		chosen[i] = true
	}
	rh, rbits := refPMTBuild(leaves, chosen)
	if len(ma.Hashes) != len(rh) || !bytes.Equal(ma.Flags, packFlagBits(rbits)) {
		return fmt.Errorf("block of %d transactions (order %v): proof for %v is not the canonical partial merkle tree", len(perm), perm, ia)
	}
	for i := range rh {
		if h32(*ma.Hashes[i]) != rh[i] {
			return fmt.Errorf("proof hash %d differs from the canonical partial merkle tree", i)
		}
	}
	levels := refLevels(leaves)
	pb := merkleblock.NewMerkleBlockFromMsg(*mb)
	got := pb.ExtractMatches()
	if got == nil || h32(*got) != levels[len(levels)-1][0] || !u32Equal(pb.GetItems(), ia) {
		return fmt.Errorf("block of %d transactions (order %v): extraction of the built proof gives root ok=%v positions %v, want %v",
			len(perm), perm, got != nil && h32(*got) == levels[len(levels)-1][0], pb.GetItems(), ia)
	}
	return nil
}

var kC11Dag = register(&Kind[c10Case]{Prop: "C11", Name: "buildersdag", Gen: genC10, Eval: evalC11Dag})

func refSelfPMT(ev *Ev) {
	// Bitcoin block 170-like sanity: two leaves -> root = H(l0||l1); odd duplication
	l := []h32{{1}, {2}, {3}}
	lv := refLevels(l)
	if lv[2][0] != hashPair(hashPair(l[0], l[1]), hashPair(l[2], l[2])) {
		ev.HarnessError("refLevels does not duplicate the last node")
	}
	// build/extract round trip on a fixed example
	hs, bits := refPMTBuild(l, []bool{false, false, true})
	root, ms, why := refPMTExtract(3, hs, packFlagBits(bits))
	if why != "" || root != lv[2][0] || len(ms) != 1 || ms[0].Pos != 2 || ms[0].Hash != l[2] {
		ev.HarnessError("refPMT round trip failed: %q", why)
	}
	if len(hs) != 2 || len(bits) != 4 {
		ev.HarnessError("refPMTBuild shape: %d hashes %d bits (want 2, 4)", len(hs), len(bits))
	}
	// CVE-2012-2459: duplicated right subtree must be rejected
	if _, _, why := refPMTExtract(4, []h32{{1}, {2}, {1}, {2}}, []byte{0x7f}); why != "equal children" {
		ev.HarnessError("refPMTExtract accepts duplicated children: %q", why)
	}
}

func TestC11(t *testing.T) {
	propTest(t, "C11", func(ev *Ev) {
		maxExh := pick(10, 16)
		ev.Rule(fmt.Sprintf("blocks of n minimal distinct transactions; exhaustive: all 2^n subsets for every n <= %d via the hash-set builder; "+
			"n = 1..65 x structured subsets (empty, full, singletons, last, first+last, right edge of every level, alternating) "+
			"through both the hash-set builder and the two filter-driven builders; rapid: n up to 4000 (600 for filters) with "+
			"random/structured subsets, shuffled/duplicated/foreign hashes in the set. Oracles: independent partial-merkle-tree "+
			"builder over a bottom-up full tree (message equality: count, hashes, flag bytes, header), matched index list, "+
			"implementation and reference extraction return the independently computed merkle root and exactly the chosen "+
			"hashes/positions, the two filter-driven builders agree. Filter-induced subsets are computed with the BIP37 model "+
			"(false positives included). Non-trivial = n>=2 and subset neither empty nor full.", maxExh),
			"double-SHA256 from crypto/sha256", "BIP37 bloom model from C09 for filter-induced subsets")
		refSelfPMT(ev)
		refSelfBloom(ev)
		if len(ev.harnessErrors) > 0 {
			return
		}
		// exhaustive subsets for small n (hash-set builder)
		idx := 0
		var total int64
		for n := 1; n <= maxExh; n++ {
			for mask := 0; mask < 1<<uint(n); mask++ {
				idx++
				if idx%nShards != shard {
					continue
				}
				c := c11Case{N: n, Mode: "txnset", Salt: n}
				for i := 0; i < n; i++ {
					if mask>>uint(i)&1 == 1 {
						c.Subset = append(c.Subset, i)
					}
				}
				total++
				if err := safeEval(evalC11, c, &Obs{}); err != nil {
					kC11.One(ev, c)
					return
				}
			}
		}
		ev.Bulk(fmt.Sprintf("C11:exh-all-subsets-n<=%d", maxExh), total, total)
		ev.Exhaustive(fmt.Sprintf("all subsets of {0..n-1} for every n<=%d (hash-set builder)", maxExh), int64(1)<<uint(maxExh+1)-2)
		// structured subsets for n = 1..65, all three builders
		for n := 1; n <= 65; n++ {
			subsets := [][]int{{}, seqInts(n), {n - 1}, {0, n - 1}}
			for i := 0; i < n; i++ {
				subsets = append(subsets, []int{i})
			}
			for lvl := uint(0); 1<<lvl <= n; lvl++ {
				start := ((n - 1) >> lvl) << lvl
				var s []int
				for i := start; i < n; i++ {
					s = append(s, i)
				}
				subsets = append(subsets, s)
			}
			var alt []int
			for i := 1; i < n; i += 2 {
				alt = append(alt, i)
			}
			subsets = append(subsets, alt)
			for si, s := range subsets {
				for _, mode := range []string{"txnset", "filter"} {
					idx++
					if idx%nShards != shard {
						continue
					}
					if !kC11.One(ev, c11Case{N: n, Subset: s, Mode: mode, Salt: si}) {
						return
					}
				}
			}
		}
		// every run also sees blocks far larger than the random sizes (tree depth 15..19, counts past 2^14 and 2^16)
		{
			ns := []int{16667, 20001, 40000, 65537}
			if tier == "thorough" {
				ns = []int{16667, 20001, 40000, 65537, 131073, 300000, 500000, 65536, 32769, 100003, 16385, 262145, 200000, 77777, 50001, 16666}
			}
			n := ns[shard%len(ns)]
			kC11.One(ev, c11Case{N: n, Mode: "txnset", Subset: []int{0, 1, n / 3, n - 2, n - 1}, Salt: seedEnv % 1000})
			if shard == 1%nShards {
				// ... and one past 2^17 (tree height 18, positions that need more than 16 bits below the top levels),
				// with a lone transaction right behind the 2^17th
				kC11.One(ev, c11Case{N: 131074, Mode: "txnset", Subset: []int{131072}, Salt: seedEnv % 1000})
			}
		}
		kC11.Run(t, ev, perShard(pick(1500, 600000)))
		for _, c := range c10SavedCases() {
			kC11Dag.One(ev, c)
		}
		kC11Dag.Run(t, ev, perShard(pick(6000, 600000)))
		ev.requireClasses("C11:subset-empty", "C11:subset-full", "C11:subset-singleton", "C11:subset-proper",
			"C11:mode=filter", "C11:mode=txnset", "C11:n-not-power-of-two", "C11:dag-flags=1", "C11:dag-flags=2")
	})
}
