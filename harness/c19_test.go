package harness

// C19 Coin selection returns only valid selections and coin-set totals never drift.

import (
	"bytes"
	"fmt"
	"math"
	"sort"
	"testing"

	"github.com/gcash/bchd/chaincfg/chainhash"
	"github.com/gcash/bchd/wire"
	"github.com/gcash/bchutil"
	"github.com/gcash/bchutil/coinset"
	"pgregory.net/rapid"
)

type testCoin struct {
	id    int
	hash  chainhash.Hash
	index uint32
	value int64
	confs int64
	vaCap int64 // > 0: the coin reports min(value*confs, vaCap) as its value-age (age is capped)
}

func (c *testCoin) va() int64 {
	if v := c.value * c.confs; c.vaCap <= 0 || v < c.vaCap {
		return v
	}
	return c.vaCap
}

func (c *testCoin) Hash() *chainhash.Hash { return &c.hash }
func (c *testCoin) Index() uint32         { return c.index }
func (c *testCoin) Value() bchutil.Amount { return bchutil.Amount(c.value) }
func (c *testCoin) PkScript() []byte      { return nil }
func (c *testCoin) NumConfs() int64       { return c.confs }
func (c *testCoin) ValueAge() int64       { return c.va() }

type coinSpec struct {
	V   int64 `json:"v"`
	C   int64 `json:"c"`
	Cap int64 `json:"va_cap,omitempty"` // value-age as the coin reports it is capped at this (0: value x confirmations)
}

func (s coinSpec) va() int64 { return (&testCoin{value: s.V, confs: s.C, vaCap: s.Cap}).va() }

func mkCoins(specs []coinSpec) []coinset.Coin {
	out := make([]coinset.Coin, len(specs))
	for i, s := range specs {
		tc := &testCoin{id: i, index: uint32(i % 3), value: s.V, confs: s.C, vaCap: s.Cap}
		tc.hash[0] = byte(i)
		tc.hash[31] = byte(i * 7)
		out[i] = tc
	}
	return out
}

// ---- kind: select -------------------------------------------------------------------

type c19Sel struct {
	Selector  string     `json:"selector"` // minindex minnumber maxvalueage minpriority
	Coins     []coinSpec `json:"coins"`
	Target    int64      `json:"target"`
	MaxInputs int        `json:"max_inputs"`
	MinChange int64      `json:"min_change"`
	MinAvg    int64      `json:"min_avg_value_age"`
}

func satisfies(target, minChange, total int64) bool {
	return total == target || total >= target+minChange
}

func evalC19Sel(c c19Sel, o *Obs) error {
	coins := mkCoins(c.Coins)
	var sel coinset.CoinSelector
	switch c.Selector {
	case "minindex":
		sel = coinset.MinIndexCoinSelector{MaxInputs: c.MaxInputs, MinChangeAmount: bchutil.Amount(c.MinChange)}
	case "minnumber":
		sel = coinset.MinNumberCoinSelector{MaxInputs: c.MaxInputs, MinChangeAmount: bchutil.Amount(c.MinChange)}
	case "maxvalueage":
		sel = coinset.MaxValueAgeCoinSelector{MaxInputs: c.MaxInputs, MinChangeAmount: bchutil.Amount(c.MinChange)}
	case "minpriority":
		sel = coinset.MinPriorityCoinSelector{MaxInputs: c.MaxInputs, MinChangeAmount: bchutil.Amount(c.MinChange), MinAvgValueAgePerInput: c.MinAvg}
	default:
		return hbug("selector")
	}
	orig := append([]coinset.Coin{}, coins...)
	res, err := sel.CoinSelect(bchutil.Amount(c.Target), coins)
	for i := range coins {
		if coins[i] != orig[i] {
			return fmt.Errorf("%s selector reordered the caller's coin list", c.Selector)
		}
	}
	desc := fmt.Sprintf("%s(target=%d, MaxInputs=%d, MinChange=%d, MinAvg=%d) over coins (v,c)=%v", c.Selector, c.Target, c.MaxInputs, c.MinChange, c.MinAvg, c.Coins)
	o.Class("C19:" + c.Selector)
	// reference for the prefix selectors
	var order []int // indices in the order the selector scans them
	keyOf := func(i int) int64 { return 0 }
	switch c.Selector {
	case "minindex":
		order = seqInts(len(coins))
	case "minnumber":
		order = seqInts(len(coins))
		keyOf = func(i int) int64 { return c.Coins[i].V }
		sort.SliceStable(order, func(a, b int) bool { return keyOf(order[a]) > keyOf(order[b]) })
	case "maxvalueage":
		order = seqInts(len(coins))
		keyOf = func(i int) int64 { return c.Coins[i].va() }
		sort.SliceStable(order, func(a, b int) bool { return keyOf(order[a]) > keyOf(order[b]) })
	}
	if err != nil {
		o.Class("C19:" + c.Selector + "-no-selection")
		if order != nil {
			// does a qualifying prefix exist (tie-independent case only)?
			tieFree := true
			if c.Selector == "maxvalueage" {
				for i := 1; i < len(order); i++ {
					if keyOf(order[i]) == keyOf(order[i-1]) && c.Coins[order[i]].V != c.Coins[order[i-1]].V {
						tieFree = false
					}
				}
			}
			if tieFree {
				var total int64
				for n := 0; n < len(order) && n < c.MaxInputs; n++ {
					total += c.Coins[order[n]].V
					if satisfies(c.Target, c.MinChange, total) {
						return fmt.Errorf("%s: no selection returned although the first %d coins in scan order qualify (total %d)", desc, n+1, total)
					}
				}
			}
		}
		return nil
	}
	got := res.Coins()
	if len(got) >= 2 {
		o.NT()
	}
	// selecting again from the same list gives the same coins, and leaves the first result alone
	if res2, err2 := sel.CoinSelect(bchutil.Amount(c.Target), coins); err2 != nil {
		return fmt.Errorf("%s: second selection with the same arguments failed: %v", desc, err2)
	} else {
		g2 := res2.Coins()
		if len(g2) != len(got) {
			return fmt.Errorf("%s: second selection with the same arguments returns %d coins, the first returned %d", desc, len(g2), len(got))
		}
		for i := range g2 {
			if g2[i].ValueAge() != got[i].ValueAge() || g2[i].Value() != got[i].Value() {
				return fmt.Errorf("%s: second selection with the same arguments differs at position %d", desc, i)
			}
		}
		if again := res.Coins(); len(again) != len(got) {
			return fmt.Errorf("%s: the first selection changed after selecting again", desc)
		}
	}
	o.Class("C19:" + c.Selector + "-selected")
	// validity
	seen := map[int]bool{}
	var total, totalVA int64
	var ids []int
	for _, g := range got {
		tc, ok := g.(*testCoin)
		if !ok || tc.id >= len(coins) || coins[tc.id] != g {
			return fmt.Errorf("%s: selection contains a coin that is not from the offered list", desc)
		}
		if seen[tc.id] {
			return fmt.Errorf("%s: coin #%d selected twice (selection %v)", desc, tc.id, ids)
		}
		seen[tc.id] = true
		ids = append(ids, tc.id)
		total += tc.value
		totalVA += tc.va()
	}
	if len(got) > c.MaxInputs {
		return fmt.Errorf("%s: %d coins selected %v, more than MaxInputs", desc, len(got), ids)
	}
	if !satisfies(c.Target, c.MinChange, total) {
		return fmt.Errorf("%s: selection %v totals %d: neither the target nor at least target+MinChange", desc, ids, total)
	}
	if cs, ok := res.(*coinset.CoinSet); ok {
		if int64(cs.TotalValue()) != total || cs.TotalValueAge() != totalVA || cs.Num() != len(got) {
			return fmt.Errorf("%s: returned coin set totals (%d,%d,%d) differ from its contents (%d,%d,%d)", desc,
				cs.TotalValue(), cs.TotalValueAge(), cs.Num(), total, totalVA, len(got))
		}
	}
	switch c.Selector {
	case "minindex":
		for i, id := range ids {
			if id != i {
				return fmt.Errorf("%s: selection %v is not a prefix of the list", desc, ids)
			}
		}
	case "minnumber", "maxvalueage":
		// non-increasing key order, keys = top-k keys of the list
		for i := range ids {
			if keyOf(ids[i]) != keyOf(order[i]) {
				return fmt.Errorf("%s: selection %v (keys) is not the top-%d of the list ordered by descending key", desc, ids, len(ids))
			}
		}
	case "minpriority":
		if len(got) > 0 && totalVA < c.MinAvg*int64(len(got)) {
			return fmt.Errorf("%s: selection %v has total value-age %d over %d inputs, below the required average %d per input", desc, ids, totalVA, len(got), c.MinAvg)
		}
	}
	// shortest qualifying prefix: no proper prefix of the selection qualifies
	if order != nil {
		var run int64
		for i := 0; i < len(got)-1; i++ {
			run += got[i].(*testCoin).value
			if satisfies(c.Target, c.MinChange, run) {
				return fmt.Errorf("%s: selection %v is not the shortest qualifying prefix (first %d coins already total %d)", desc, ids, i+1, run)
			}
		}
	}
	return nil
}

func genC19Sel(t *rapid.T) c19Sel {
	c := c19Sel{Selector: rapid.SampledFrom([]string{"minindex", "minnumber", "maxvalueage", "minpriority", "minpriority"}).Draw(t, "sel")}
	n := rapid.IntRange(0, 12).Draw(t, "n")
	long := rapid.IntRange(0, 9).Draw(t, "long") == 0 && c.Selector != "minpriority" // (that selector's oracle enumerates)
	if long {                                                                        // a wallet's worth of coins
		n = rapid.SampledFrom([]int{63, 64, 65, 100, 128, 200, 300}).Draw(t, "nlong")
	}
	large := rapid.IntRange(0, 5).Draw(t, "large") == 0
	capped := rapid.IntRange(0, 3).Draw(t, "capped") == 0
	huge := rapid.IntRange(0, 5).Draw(t, "huge") == 0
	var sum int64
	for i := 0; i < n; i++ {
		cs := coinSpec{V: int64(rapid.IntRange(0, 6).Draw(t, "v")), C: int64(rapid.IntRange(0, 4).Draw(t, "c"))}
		if large {
			cs.V = rapid.Int64Range(0, 5000000).Draw(t, "vl")
			cs.C = rapid.Int64Range(0, 1000).Draw(t, "cl")
		}
		if capped && rapid.Bool().Draw(t, "cap") {
			cs.Cap = rapid.Int64Range(1, 1+cs.V*cs.C).Draw(t, "vacap")
		}
		if huge { // value-ages around 10^16..10^17: integer arithmetic is still exact, float64 no longer is
			cs.V = rapid.Int64Range(1e10, 3e11).Draw(t, "vh")
			cs.C = rapid.Int64Range(5e4, 3e5).Draw(t, "ch")
		}
		sum += cs.V
		c.Coins = append(c.Coins, cs)
	}
	c.Target = rapid.Int64Range(0, sum+2).Draw(t, "target")
	c.MaxInputs = rapid.IntRange(0, 13).Draw(t, "maxin")
	if rapid.IntRange(0, 9).Draw(t, "maxinbig") == 0 { // "no limit"
		c.MaxInputs = rapid.SampledFrom([]int{math.MaxInt32, math.MaxInt64, math.MaxInt64 - 1, 1 << 40}).Draw(t, "maxinhuge")
	}
	if long {
		c.MaxInputs = rapid.IntRange(1, n/4).Draw(t, "maxinlong")
		if rapid.Bool().Draw(t, "reachable") && n > 0 { // a target the most valuable few can pay
			top := make([]int64, 0, n)
			for _, cs := range c.Coins {
				top = append(top, cs.V)
			}
			sort.Slice(top, func(i, j int) bool { return top[i] > top[j] })
			var s int64
			for i := 0; i < c.MaxInputs && i < len(top); i++ {
				s += top[i]
			}
			c.Target = s - int64(rapid.IntRange(0, 2).Draw(t, "slack"))
			if c.Target < 0 {
				c.Target = 0
			}
		}
	}
	c.MinChange = int64(rapid.IntRange(0, 4).Draw(t, "minchange"))
	c.MinAvg = int64(rapid.IntRange(0, 30).Draw(t, "minavg"))
	if large {
		c.MinChange = rapid.Int64Range(0, 100000).Draw(t, "minchangel")
		c.MinAvg = rapid.Int64Range(0, 50000000).Draw(t, "minavgl")
	}
	if huge && n > 0 && c.Selector == "minpriority" {
		// the required average sits a unit or two above / at / below the true average of a prefix of the list
		k := rapid.IntRange(1, n).Draw(t, "hk")
		var tot int64
		for _, cs := range c.Coins[:k] {
			tot += cs.va()
		}
		c.MinAvg = tot/int64(k) + int64(rapid.IntRange(-1, 2).Draw(t, "hdelta"))
		c.MinChange = 0
		c.Target = rapid.Int64Range(1, sum).Draw(t, "htarget")
	}
	return c
}

var kC19Sel = register(&Kind[c19Sel]{Prop: "C19", Name: "select", Gen: genC19Sel, Eval: evalC19Sel})

// ---- kind: coinset history -------------------------------------------------------------

type c19Op struct {
	Op string   `json:"op"` // push pop shift tx
	C  coinSpec `json:"coin"`
}

type c19Hist struct {
	Initial []coinSpec `json:"initial"`
	Ops     []c19Op    `json:"ops"`
}

func evalC19Hist(c c19Hist, o *Obs) error {
	next := 0
	mk := func(s coinSpec) *testCoin {
		tc := &testCoin{id: next, index: uint32(next % 5), value: s.V, confs: s.C, vaCap: s.Cap}
		tc.hash[1] = byte(next)
		tc.hash[2] = byte(next >> 8)
		next++
		return tc
	}
	var model []*testCoin
	var init []coinset.Coin
	for _, s := range c.Initial {
		tc := mk(s)
		model = append(model, tc)
		init = append(init, tc)
	}
	// the initial coins are handed over in a slice with spare capacity that holds two further coins of the
	// caller's; the set must not adopt that storage
	guardA, guardB := mk(coinSpec{V: 123456, C: 7}), mk(coinSpec{V: 654321, C: 9})
	backing := append(append([]coinset.Coin{}, init...), guardA, guardB)
	cs := coinset.NewCoinSet(backing[:len(init)])
	twin := coinset.NewCoinSet(backing[:len(init)])
	twin.PushCoin(mk(coinSpec{V: 5, C: 5}))
	pushes, removalAfter2 := len(c.Initial), false
	check := func(when string) error {
		var tv, tva int64
		for _, m := range model {
			tv += m.value
			tva += m.va()
		}
		if cs.Num() != len(model) || int64(cs.TotalValue()) != tv || cs.TotalValueAge() != tva {
			return fmt.Errorf("%s: Num/TotalValue/TotalValueAge = %d/%d/%d, sums over the contents are %d/%d/%d", when,
				cs.Num(), cs.TotalValue(), cs.TotalValueAge(), len(model), tv, tva)
		}
		got := cs.Coins()
		if len(got) != len(model) {
			return fmt.Errorf("%s: Coins() has %d entries, want %d", when, len(got), len(model))
		}
		for i := range got {
			if got[i] != coinset.Coin(model[i]) {
				return fmt.Errorf("%s: Coins()[%d] is not the expected coin", when, i)
			}
		}
		return nil
	}
	if err := check("after NewCoinSet"); err != nil {
		return err
	}
	for step, op := range c.Ops {
		when := fmt.Sprintf("step %d %s", step, op.Op)
		switch op.Op {
		case "push":
			tc := mk(op.C)
			cs.PushCoin(tc)
			model = append(model, tc)
			pushes++
		case "pushagain":
			// a coin object that is already in the set is pushed once more (a list, not a set: it is there twice)
			if len(model) == 0 {
				break
			}
			tc := model[int(op.C.V+op.C.C)%len(model)]
			cs.PushCoin(tc)
			model = append(model, tc)
			pushes++
			o.Class("C19:same-coin-object-twice")
		case "pop":
			got := cs.PopCoin()
			if len(model) == 0 {
				o.Class("C19:remove-on-empty")
				if got != nil {
					return fmt.Errorf("%s on an empty set returned %v", when, got)
				}
				break
			}
			if got != coinset.Coin(model[len(model)-1]) {
				return fmt.Errorf("%s did not return the last coin", when)
			}
			model = model[:len(model)-1]
			if pushes >= 2 {
				removalAfter2 = true
			}
		case "shift":
			got := cs.ShiftCoin()
			if len(model) == 0 {
				o.Class("C19:remove-on-empty")
				if got != nil {
					return fmt.Errorf("%s on an empty set returned %v", when, got)
				}
				break
			}
			if got != coinset.Coin(model[0]) {
				return fmt.Errorf("%s did not return the first coin", when)
			}
			model = model[1:]
			if pushes >= 2 {
				removalAfter2 = true
			}
		case "tx":
			tx := coinset.NewMsgTxWithInputCoins(2, cs)
			if len(tx.TxIn) != len(model) || len(tx.TxOut) != 0 || tx.Version != 2 {
				return fmt.Errorf("%s: transaction has %d inputs / %d outputs, set has %d coins", when, len(tx.TxIn), len(tx.TxOut), len(model))
			}
			for i, in := range tx.TxIn {
				if in.PreviousOutPoint.Hash != model[i].hash || in.PreviousOutPoint.Index != model[i].index || len(in.SignatureScript) != 0 {
					return fmt.Errorf("%s: input %d does not spend coin %d's outpoint (or carries a signature script)", when, i, i)
				}
			}
			o.Class("C19:tx-built")
		default:
			return hbug("op")
		}
		if err := check("after " + when); err != nil {
			return err
		}
	}
	if backing[len(init)] != coinset.Coin(guardA) || backing[len(init)+1] != coinset.Coin(guardB) {
		return fmt.Errorf("the coin set wrote into the spare capacity of the slice it was created from (the caller's coins behind it were overwritten)")
	}
	for i := range init {
		if backing[i] != init[i] {
			return fmt.Errorf("the coin set modified the slice it was created from (element %d)", i)
		}
	}
	if twin.Num() != len(init)+1 {
		return fmt.Errorf("a second coin set created from the same slice has %d coins, want %d", twin.Num(), len(init)+1)
	}
	if removalAfter2 {
		o.NT()
		o.Class("C19:removal-after-pushes")
	}
	return nil
}

var kC19Hist = register(&Kind[c19Hist]{
	Prop: "C19", Name: "coinset",
	Gen: func(t *rapid.T) c19Hist {
		var c c19Hist
		coin := func() coinSpec {
			if rapid.IntRange(0, 4).Draw(t, "big") == 0 {
				return coinSpec{V: rapid.Int64Range(0, 2100000000000000).Draw(t, "vb"), C: rapid.Int64Range(0, 4000).Draw(t, "cb")}
			}
			cs := coinSpec{V: int64(rapid.IntRange(0, 6).Draw(t, "v")), C: int64(rapid.IntRange(0, 4).Draw(t, "c"))}
			if rapid.IntRange(0, 3).Draw(t, "cap") == 0 {
				cs.Cap = int64(rapid.IntRange(1, 10).Draw(t, "vacap"))
			}
			return cs
		}
		for i := rapid.IntRange(0, 3).Draw(t, "ninit"); i > 0; i-- {
			c.Initial = append(c.Initial, coin())
		}
		for i := rapid.IntRange(1, 40).Draw(t, "nops"); i > 0; i-- {
			switch rapid.IntRange(0, 8).Draw(t, "op") {
			case 8:
				c.Ops = append(c.Ops, c19Op{Op: "pushagain", C: coinSpec{V: int64(rapid.IntRange(0, 50).Draw(t, "which"))}})
			case 0, 1, 2:
				c.Ops = append(c.Ops, c19Op{Op: "push", C: coin()})
			case 3, 4:
				c.Ops = append(c.Ops, c19Op{Op: "pop"})
			case 5, 6:
				c.Ops = append(c.Ops, c19Op{Op: "shift"})
			default:
				c.Ops = append(c.Ops, c19Op{Op: "tx"})
			}
		}
		return c
	},
	Eval: evalC19Hist,
})

// ---- kind: SimpleCoin, the library's own Coin ---------------------------------------------------

type c19Simple struct {
	Outs  []coinSpec `json:"outputs"` // value and confirmations per output of one transaction
	Picks []int      `json:"picks"`   // outputs (by index) offered as coins, in this order
}

func evalC19Simple(c c19Simple, o *Obs) error {
	if len(c.Outs) < 1 || len(c.Outs) > 300 || len(c.Picks) > 8 {
		return hbug("bad simple-coin case")
	}
	msg := wire.NewMsgTx(2)
	msg.AddTxIn(wire.NewTxIn(wire.NewOutPoint(&chainhash.Hash{1}, 0), []byte{0x51}))
	for i, s := range c.Outs {
		msg.AddTxOut(wire.NewTxOut(s.V, []byte{0x76, byte(i), byte(i >> 8)}, wire.TokenData{}))
	}
	tx := bchutil.NewTx(msg)
	want := msg.TxHash()
	var coins []coinset.Coin
	var total, totalVA int64
	for _, i := range c.Picks {
		if i < 0 || i >= len(c.Outs) {
			return hbug("pick")
		}
		sc := &coinset.SimpleCoin{Tx: tx, TxIndex: uint32(i), TxNumConfs: c.Outs[i].C}
		if *sc.Hash() != want || sc.Index() != uint32(i) || int64(sc.Value()) != c.Outs[i].V || sc.NumConfs() != c.Outs[i].C ||
			sc.ValueAge() != c.Outs[i].V*c.Outs[i].C || !bytes.Equal(sc.PkScript(), []byte{0x76, byte(i), byte(i >> 8)}) {
			return fmt.Errorf("SimpleCoin for output %d (value %d, %d confirmations) of a %d-output transaction reports hash %v index %d value %d confs %d value-age %d script %x",
				i, c.Outs[i].V, c.Outs[i].C, len(c.Outs), sc.Hash(), sc.Index(), sc.Value(), sc.NumConfs(), sc.ValueAge(), sc.PkScript())
		}
		coins = append(coins, sc)
		total += c.Outs[i].V
		totalVA += c.Outs[i].V * c.Outs[i].C
	}
	if len(coins) >= 2 {
		o.NT()
	}
	o.Class("C19:simplecoin")
	cs := coinset.NewCoinSet(coins)
	if cs.Num() != len(coins) || int64(cs.TotalValue()) != total || cs.TotalValueAge() != totalVA {
		return fmt.Errorf("coin set of SimpleCoins %v: totals (%d,%d,%d) differ from the sums over its contents (%d,%d,%d)", c.Picks,
			cs.Num(), cs.TotalValue(), cs.TotalValueAge(), len(coins), total, totalVA)
	}
	built := coinset.NewMsgTxWithInputCoins(1, cs)
	if len(built.TxIn) != len(coins) || len(built.TxOut) != 0 {
		return fmt.Errorf("transaction built from %d SimpleCoins has %d inputs and %d outputs", len(coins), len(built.TxIn), len(built.TxOut))
	}
	for k, i := range c.Picks {
		if op := built.TxIn[k].PreviousOutPoint; op.Hash != want || op.Index != uint32(i) {
			return fmt.Errorf("input %d of the transaction built from SimpleCoins %v spends %v, want %v:%d", k, c.Picks, op, want, i)
		}
	}
	return nil
}

var kC19Simple = register(&Kind[c19Simple]{
	Prop: "C19", Name: "simplecoin", Eval: evalC19Simple,
	Gen: func(t *rapid.T) c19Simple {
		var c c19Simple
		n := rapid.SampledFrom([]int{1, 2, 3, 5, 17, 255, 256, 257, 300}).Draw(t, "nouts")
		for i := 0; i < n; i++ {
			c.Outs = append(c.Outs, coinSpec{V: int64(i%7) * 1000, C: int64(i % 5)})
		}
		for k := rapid.IntRange(0, 4).Draw(t, "npicks"); k > 0; k-- {
			i := rapid.IntRange(0, n-1).Draw(t, "pick")
			if rapid.Bool().Draw(t, "edge") {
				i = n - 1
			}
			c.Outs[i] = coinSpec{V: rapid.Int64Range(0, 2100000000000000).Draw(t, "v"), C: rapid.Int64Range(0, 1000).Draw(t, "c")}
			c.Picks = append(c.Picks, i)
		}
		return c
	}})

func TestC19(t *testing.T) {
	propTest(t, "C19", func(ev *Ev) {
		ev.Rule("selectors: coin lists of 0..12 coins (values 0..6 and confirmations 0..4 with ties and zeros, or large), target "+
			"0..sum+2, MaxInputs 0..13, MinChange 0..4, MinAvgValueAge 0..30, all four selectors. On success: distinct coins of the "+
			"offered list (identity), count <= MaxInputs, total == target or >= target+MinChange, returned set's totals equal its "+
			"contents, caller's list not reordered; min-index: prefix of the list, shortest qualifying; min-number / max-value-age: "+
			"keys equal the top-k keys in descending order and no proper prefix qualifies; on failure (prefix selectors, "+
			"tie-independent cases): no qualifying prefix within MaxInputs exists; min-priority: total value-age >= MinAvg x count. "+
			"CoinSet histories (<=40 ops): Push/Pop/Shift incl. on empty sets, NewMsgTxWithInputCoins, against a list model after "+
			"every step. SimpleCoin (the library's own Coin over an output of a bchutil.Tx): accessors, totals of a set of them and the transaction built from it. Non-trivial = selection of >=2 coins, or a removal after >=2 pushes.",
			"min-priority is not required to find a selection whenever one exists (its documentation disclaims that), nor to be minimal")
		// regression cases for the min-priority selector (see KNOWN_FINDINGS.txt)
		kC19Sel.One(ev, c19Sel{Selector: "minpriority", Coins: []coinSpec{{V: 0, C: 0}, {V: 0, C: 0}, {V: 1, C: 0}, {V: 3, C: 1}}, Target: 0, MaxInputs: 1, MinChange: 4, MinAvg: 1})
		kC19Sel.Run(t, ev, perShard(pick(20000, 10000000)))
		kC19Hist.Run(t, ev, perShard(pick(3000, 1500000)))
		kC19Simple.Run(t, ev, perShard(pick(1500, 300000)))
		ev.requireClasses("C19:minindex-selected", "C19:minnumber-selected", "C19:maxvalueage-selected", "C19:minpriority-selected",
			"C19:minindex-no-selection", "C19:remove-on-empty", "C19:removal-after-pushes", "C19:tx-built")
	})
}
