package harness

// Alias sweeps: a valid string with ONE character replaced, at every position, by every byte
// sequence a sloppy decoder might confuse with it.  The random alias mutation in the other kinds
// reaches a given (position class, alias) pair only now and then; the sweep makes that coverage
// a matter of construction: one case = one valid base string = all positions x all aliases.

import (
	"bytes"
	"fmt"
	"strings"

	"github.com/gcash/bchutil/base58"
	"pgregory.net/rapid"
)

// aliasVariants returns, for every position of s, the strings in which that character is replaced by
// the byte with bit 4, 5, 6 or 7 flipped or the top three bits cleared (control character), by the
// runes U+01xx / U+02xx / U+FFxx with the same low byte, and by the characters that Unicode case
// mapping sends to that letter.
func aliasVariants(s string) []string {
	var out []string
	folds := map[byte][]string{'k': {"K"}, 'K': {"K"}, 's': {"ſ"}, 'S': {"ſ"}, 'i': {"İ", "ı"}, 'I': {"İ", "ı"}}
	for i := 0; i < len(s); i++ {
		c := s[i]
		reps := []string{string([]byte{c ^ 0x10}), string([]byte{c ^ 0x20}), string([]byte{c ^ 0x40}), string([]byte{c | 0x80}), string([]byte{c & 0x1f}),
			string(rune(0x100 + int(c))), string(rune(0x200 + int(c))), string(rune(0xff00 + int(c)))}
		reps = append(reps, folds[c]...)
		reps = append(reps, "b", "i", "o", "1", "B", "I", "O", "0", "l", ":", "-", "_", " ")
		for _, r := range reps {
			if r != string([]byte{c}) {
				out = append(out, s[:i]+r+s[i+1:])
			}
		}
	}
	return out
}

// wrapVariants: the string with white space or other junk before it, after it, or inside it.
func wrapVariants(s string) []string {
	var out []string
	for _, j := range []string{" ", "\t", "\n", "\r\n", "\v", "\f", "\u00a0", "\u2003", "\ufeff", "\x00", "\x85"} {
		out = append(out, j+s, s+j, j+s+j, s[:len(s)/2]+j+s[len(s)/2:])
	}
	for _, j := range []string{"?", "?amount=1", "#", "&x", "/", "//", ";", ",", "=", "@"} { // what follows an address in a URI or a list
		out = append(out, s+j, j+s, s[:len(s)/2]+j+s[len(s)/2:])
	}
	return out
}

type aliasSweep struct {
	Base   string `json:"base"`
	Target string `json:"target,omitempty"`
}

func sweep(c aliasSweep, o *Obs, judge func(string, *Obs) error) error {
	if len(c.Base) == 0 || len(c.Base) > 600 {
		return hbug("bad base string")
	}
	if err := judge(c.Base, o); err != nil {
		return err
	}
	for _, v := range aliasVariants(c.Base) {
		if err := judge(v, o); err != nil {
			return fmt.Errorf("one character of %q replaced by an alias: %v", c.Base, err)
		}
	}
	// Base58 strings: the decoded bytes (checksum included) followed by further bytes - a longer payload that
	// begins with a valid one
	if raw, ok := refB58Decode(c.Base); ok && len(raw) > 0 && !strings.Contains(c.Base, ":") {
		for _, width := range []int{32, 33, 40, 64} { // the same low bytes under a 1 bit far above them (numbers that wrap)
			if len(raw) <= width {
				v := refB58Encode(append(append([]byte{0x01}, make([]byte, width-len(raw))...), raw...))
				if err := judge(v, o); err != nil {
					return fmt.Errorf("the bytes of %q with a 1 bit %d bytes above them: %v", c.Base, width, err)
				}
			}
		}
		for _, n := range []int{1, 2, 5, 40, 200} {
			for _, fill := range []byte{0x00, 0x01, 0xff} {
				v := refB58Encode(append(append([]byte{}, raw...), bytes.Repeat([]byte{fill}, n)...))
				if err := judge(v, o); err != nil {
					return fmt.Errorf("the bytes of %q followed by %d bytes %#x: %v", c.Base, n, fill, err)
				}
			}
		}
	}
	for _, v := range wrapVariants(c.Base) {
		if err := judge(v, o); err != nil {
			return fmt.Errorf("%q with white space or junk around or inside it: %v", c.Base, err)
		}
	}
	o.NT()
	return nil
}

var kC02Alias = register(&Kind[aliasSweep]{Prop: "C02", Name: "alias-sweep",
	Gen: func(t *rapid.T) aliasSweep {
		s := genValidAddressString(t)
		if rapid.IntRange(0, 3).Draw(t, "upper") == 0 {
			s = asciiUpper(s)
		}
		return aliasSweep{Base: s}
	},
	Eval: func(c aliasSweep, o *Obs) error {
		o.Class("C02:alias-sweep")
		return sweep(c, o, func(s string, o *Obs) error {
			sub := &Obs{}
			return evalC02(c02Case{S: s, Class: "alias"}, sub)
		})
	}})

var kC05Alias = register(&Kind[aliasSweep]{Prop: "C05", Name: "alias-sweep",
	Gen: func(t *rapid.T) aliasSweep {
		n := nets[genNet(t)].Params
		p := append([]byte{}, n.HDPrivateKeyID[:]...)
		pub := rapid.Bool().Draw(t, "pub")
		if pub {
			p = append([]byte{}, n.HDPublicKeyID[:]...)
		}
		p = append(p, byte(rapid.IntRange(0, 255).Draw(t, "depth")))
		p = append(p, genBytesN(t, "fp_child_chain", 4+4+32)...)
		k := genScalar(t, "k")
		if pub {
			x, y := pubPoint(k)
			p = append(p, serPub(x, y, 0)...)
		} else {
			p = append(append(p, 0), k...)
		}
		return aliasSweep{Base: refB58Encode(append(p, dsha256(p)[:4]...))}
	},
	Eval: func(c aliasSweep, o *Obs) error {
		o.Class("C05:alias-sweep")
		return sweep(c, o, func(s string, o *Obs) error { return c05Judge(s, &Obs{}) })
	}})

var kC06Alias = register(&Kind[aliasSweep]{Prop: "C06", Name: "alias-sweep",
	Gen: func(t *rapid.T) aliasSweep {
		id := nets[genNet(t)].Params.PrivateKeyID
		if rapid.IntRange(0, 3).Draw(t, "anyid") == 0 {
			id = rapid.Byte().Draw(t, "id")
		}
		return aliasSweep{Base: refWIFEncode(id, genScalar(t, "k"), rapid.Bool().Draw(t, "compress"))}
	},
	Eval: func(c aliasSweep, o *Obs) error {
		o.Class("C06:alias-sweep")
		return sweep(c, o, func(s string, o *Obs) error { return c06Judge(s, &Obs{}) })
	}})

var kC07Alias = register(&Kind[aliasSweep]{Prop: "C07", Name: "alias-sweep",
	Gen: func(t *rapid.T) aliasSweep {
		switch rapid.IntRange(0, 2).Draw(t, "target") {
		case 0:
			return aliasSweep{Target: "base58", Base: "1" + refB58Encode(genBytes(t, "b", 1, 40))}
		case 1:
			return aliasSweep{Target: "base58check", Base: refB58CheckEncode(genBytes(t, "p", 0, 40), rapid.Byte().Draw(t, "ver"))}
		}
		hrp := genHrp(t, 20)
		n := rapid.IntRange(0, 60).Draw(t, "n")
		data := make([]byte, n)
		for i := range data {
			data[i] = byte(rapid.IntRange(0, 31).Draw(t, "d"))
		}
		s := refBech32Encode(hrp, data)
		if rapid.IntRange(0, 3).Draw(t, "upper") == 0 {
			s = asciiUpper(s)
		}
		return aliasSweep{Target: "bech32", Base: s}
	},
	Eval: func(c aliasSweep, o *Obs) error {
		o.Class("C07:alias-sweep-" + c.Target)
		switch c.Target {
		case "base58":
			return sweep(c, o, func(s string, o *Obs) error { return evalC07Str(c07Str{S: s}, &Obs{}) })
		case "base58check":
			return sweep(c, o, func(s string, o *Obs) error {
				got, ver, err := base58.CheckDecode(s)
				want, wver, ok := refB58CheckDecode(s)
				if (err == nil) != ok || (ok && (ver != wver || !bytes.Equal(got, want))) {
					return fmt.Errorf("base58.CheckDecode(%q) = %x, version %d, err %v; the definition gives %x, version %d, accepted %v", s, got, ver, err, want, wver, ok)
				}
				return nil
			})
		case "bech32":
			if len(c.Base) > 90 {
				return hbug("bech32 base too long")
			}
			return sweep(c, o, func(s string, o *Obs) error { return evalC07BechStr(c07BechStr{S: s}, &Obs{}) })
		}
		return hbug("target")
	}})
