package harness

// C08 No parser panics, hangs or over-allocates on untrusted input.

import (
	"bytes"
	"encoding/json"
	"fmt"
	"math"
	"os"
	"path/filepath"
	"runtime"
	"runtime/debug"
	"strings"
	"sync"
	"sync/atomic"
	"testing"
	"time"

	"github.com/gcash/bchd/chaincfg/chainhash"
	"github.com/gcash/bchd/wire"
	"github.com/gcash/bchutil"
	"github.com/gcash/bchutil/base58"
	"github.com/gcash/bchutil/bech32"
	"github.com/gcash/bchutil/bloom"
	"github.com/gcash/bchutil/gcs"
	"github.com/gcash/bchutil/hdkeychain"
	"github.com/gcash/bchutil/jsonpb"
	pb "github.com/gcash/bchutil/jsonpb/testpb"
	"github.com/gcash/bchutil/merkleblock"
	"github.com/golang/protobuf/proto"
	"pgregory.net/rapid"
)

const (
	c08AllocBase    = 2 << 20 // A: 2 MiB
	c08AllocPerByte = 8 << 10 // B: 8 KiB per input byte
	c08SlowSeconds  = 10.0
	c08HangSeconds  = 90
)

// guarded runs f, measuring allocation and time.  Panics propagate (safeEval
// attributes them).
func guarded(name string, inputLen int, o *Obs, f func()) error {
	return guardedLimit(name, inputLen, c08SlowSeconds, o, f)
}

// guardedLimit is guarded with an explicit time limit (seconds).
func guardedLimit(name string, inputLen int, slow float64, o *Obs, f func()) error {
	var m0, m1 runtime.MemStats
	runtime.ReadMemStats(&m0)
	t0 := time.Now()
	// watchdog: a call that does not come back cannot be judged after the fact.  After 90 s (inputs are
	// at most a few kilobytes) the process reports a hang for the case being evaluated and exits; the
	// driver turns that into a violation whose replay file is the saved current case.
	wd := time.AfterFunc(c08HangSeconds*time.Second, func() {
		if outDir != "" {
			os.WriteFile(filepath.Join(outDir, "hang.txt"), []byte(fmt.Sprintf("%s did not return within %d s on an input of %d bytes", name, c08HangSeconds, inputLen)), 0o644)
		}
		fmt.Printf("HANG property=C08 %s did not return within %d s\n", name, c08HangSeconds)
		os.Exit(3)
	})
	f()
	wd.Stop()
	dur := time.Since(t0).Seconds()
	runtime.ReadMemStats(&m1)
	alloc := m1.TotalAlloc - m0.TotalAlloc
	limit := uint64(c08AllocBase + c08AllocPerByte*inputLen)
	if alloc > limit {
		if (name == "NewTxFromBytes" || name == "NewBlockFromBytes" || name == "NewBlockFromReader") && isKnown("wire-prealloc") {
			if alloc <= 4096<<20 { // protocol-bounded maximum of bchd's wire decoder (29.8M declared outputs x 112 bytes = 3.4 GB)
				o.Excluded("wire-prealloc")
				return nil
			}
		}
		return fmt.Errorf("%s allocated %d bytes for an input of %d bytes (allowance %d = 2 MiB + 8 KiB per input byte): allocation is not proportional to the input (follows a count claimed inside it, or repeated work)",
			name, alloc, inputLen, limit)
	}
	if dur > slow {
		t1 := time.Now()
		f()
		if d2 := time.Since(t1).Seconds(); d2 > slow {
			return fmt.Errorf("%s needs %.1fs (and %.1fs when repeated) on an input of %d bytes", name, dur, d2, inputLen)
		}
		o.Class("C08:slow-once(inconclusive)")
	}
	return nil
}

// ---- kind: strings -------------------------------------------------------------------

type c08Str struct {
	S      string `json:"s"`
	Origin string `json:"origin"`
}

func evalC08Str(c c08Str, o *Obs) error {
	s := c.S
	o.Class("C08:str-origin=" + c.Origin)
	passed := false
	for _, n := range nets {
		n := n
		if err := guarded("DecodeAddress", len(s), o, func() {
			if a, err := bchutil.DecodeAddress(s, n.Params); err == nil {
				passed = true
				_ = a.EncodeAddress()
				_ = a.String()
				_ = a.ScriptAddress()
			}
		}); err != nil {
			return err
		}
	}
	steps := []struct {
		name string
		f    func()
	}{
		{"DecodeCashAddress", func() {
			if _, _, err := bchutil.DecodeCashAddress(s); err == nil {
				passed = true
			}
		}},
		{"DecodeWIF", func() {
			if w, err := bchutil.DecodeWIF(s); err == nil {
				passed = true
				_ = w.String()
				_ = w.SerializePubKey()
			}
		}},
		{"base58.Decode", func() { base58.Decode(s) }},
		{"base58.CheckDecode", func() {
			if _, _, err := base58.CheckDecode(s); err == nil {
				passed = true
			}
		}},
		{"bech32.Decode", func() {
			if hrp, d, err := bech32.Decode(s); err == nil {
				passed = true
				bech32.Encode(hrp, d)
				bech32.ConvertBits(d, 5, 8, false)
			}
		}},
		{"hdkeychain.NewKeyFromString", func() {
			if k, err := hdkeychain.NewKeyFromString(s); err == nil {
				passed = true
				_ = k.String()
				k.Neuter()
				k.Child(0)
				k.Child(0x80000000)
				k.Address(nets[0].Params)
				k.ECPubKey()
			}
		}},
	}
	for _, st := range steps {
		if err := guarded(st.name, len(s), o, st.f); err != nil {
			return err
		}
	}
	if passed {
		o.NT()
		o.Class("C08:str-passed-outer-layer")
	}
	return nil
}

// shortCashAddr builds "<prefix>:<n symbols>" with a valid checksum for n < 8: the
// checksum symbols overlap the prefix and the separator.
func shortCashAddr(t *rapid.T, n int) (string, bool) {
	for try := 0; try < 4000; try++ {
		hl := rapid.IntRange(0, 3).Draw(t, "hl")
		head := make([]byte, hl)
		for i := range head {
			head[i] = byte(rapid.IntRange(1, 26).Draw(t, "hc"))
		}
		// checksum over head: 8 symbols c so that polymod(head||c) == 0
		enc := append(append([]byte{}, head...), 0, 0, 0, 0, 0, 0, 0, 0)
		mod := refCashPolymod(enc)
		c := make([]byte, 8)
		for i := 0; i < 8; i++ {
			c[i] = byte((mod >> uint(5*(7-i))) & 0x1f)
		}
		sep := 7 - n
		if c[sep] != 0 {
			continue
		}
		ok := true
		for j := 0; j < sep; j++ {
			if c[j] < 1 || c[j] > 26 {
				ok = false
			}
		}
		if !ok || hl+sep == 0 {
			continue
		}
		var sb strings.Builder
		for _, h := range head {
			sb.WriteByte('a' - 1 + h)
		}
		for j := 0; j < sep; j++ {
			sb.WriteByte('a' - 1 + c[j])
		}
		sb.WriteByte(':')
		for j := sep + 1; j < 8; j++ {
			sb.WriteByte(b32Charset[c[j]])
		}
		return sb.String(), true
	}
	return "", false
}

func genC08Str(t *rapid.T) c08Str {
	var c c08Str
	switch rapid.IntRange(0, 11).Draw(t, "origin") {
	case 0, 1:
		c.Origin = "address-classes"
		c.S = genC02(t).S
	case 2:
		c.Origin = "short-cashaddr"
		n := rapid.IntRange(0, 7).Draw(t, "n")
		if s, ok := shortCashAddr(t, n); ok {
			c.S = s
			if rapid.Bool().Draw(t, "upper") {
				c.S = asciiUpper(s)
			}
		} else {
			c.S = "prefix:"
		}
	case 3:
		c.Origin = "cashaddr-any-symbols"
		prefix := genKnownPrefix(t)
		if rapid.IntRange(0, 3).Draw(t, "longprefix") == 0 { // any lower-case prefix is a CashAddr prefix, of any length
			prefix = strings.Repeat(rapid.StringMatching("[a-z]{1,3}").Draw(t, "pfxunit"), rapid.SampledFrom([]int{1, 11, 16, 17, 32, 33, 64, 65, 128, 300, 1000}).Draw(t, "pfxrep"))
		}
		n := rapid.IntRange(0, 120).Draw(t, "n")
		if rapid.IntRange(0, 3).Draw(t, "tiny") == 0 { // empty / near-empty payload behind a valid checksum
			n = rapid.IntRange(0, 3).Draw(t, "ntiny")
		}
		syms := make([]byte, n)
		for i := range syms {
			syms[i] = byte(rapid.IntRange(0, 31).Draw(t, "sym"))
		}
		c.S = prefix + ":" + refCashEncodeSymbols(prefix, syms)
		if rapid.Bool().Draw(t, "noprefix") {
			c.S = c.S[len(prefix)+1:]
		}
	case 4:
		c.Origin = "base58check-short"
		n := rapid.IntRange(0, 6).Draw(t, "n")
		raw := genBytesN(t, "raw", n)
		if rapid.Bool().Draw(t, "ck") && n >= 1 {
			raw = append(raw, dsha256(raw)[:4]...)
		}
		c.S = refB58Encode(raw)
	case 5:
		c.Origin = "extended-key"
		h := genC05Hostile(t)
		raw := append([]byte{}, h.Payload...)
		raw = append(raw, dsha256(h.Payload)[:4]...)
		c.S = strings.Repeat("1", h.LeadOnes) + refB58Encode(raw) + h.TrailJunk
	case 6:
		c.Origin = "wif"
		h := genC06Hostile(t)
		raw := append([]byte{}, h.Body...)
		raw = append(raw, dsha256(h.Body)[:4]...)
		c.S = refB58Encode(raw)
	case 7:
		c.Origin = "bech32"
		c.S = kC07BechStr.Gen(t).S
	case 8:
		c.Origin = "long"
		unit := rapid.SampledFrom([]string{"1", "q", "z", ":", "bitcoincash:", "0", "Q", "\xff", "l", "a1"}).Draw(t, "unit")
		c.S = strings.Repeat(unit, rapid.IntRange(1, 16000/len(unit)).Draw(t, "rep"))
	case 9:
		if rapid.Bool().Draw(t, "wsruns") {
			c.Origin = "whitespace-runs"
			core := rapid.SampledFrom([]string{"", "q", "1", "bitcoincash:", "bchtest:q", ":", "qq", "a1"}).Draw(t, "core")
			ws := strings.Repeat(rapid.SampledFrom([]string{"\n", "\r\n", " ", "\t", "\r", "\x00"}).Draw(t, "ws"), rapid.IntRange(1, 60).Draw(t, "wsn"))
			c.S = []string{core + ws, ws + core, ws + core + ws}[rapid.IntRange(0, 2).Draw(t, "wsside")]
			break
		}
		c.Origin = "random"
		c.S = string(rapid.SliceOfN(rapid.Byte(), 0, 200).Draw(t, "s"))
	default:
		c.Origin = "mutated"
		c.S = mutateString(t, genC02(t).S)
	}
	return c
}

var kC08Str = register(&Kind[c08Str]{Prop: "C08", Name: "strings", Gen: genC08Str, Eval: evalC08Str})

// ---- kind: wire bytes (tx / block) ------------------------------------------------------

type c08Bytes struct {
	B      HexBytes `json:"b"`
	Origin string   `json:"origin"`
}

func evalC08Wire(c c08Bytes, o *Obs) error {
	b := []byte(c.B)
	o.Class("C08:wire-origin=" + c.Origin)
	parsed := false
	if err := guarded("NewTxFromBytes", len(b), o, func() {
		if tx, err := bchutil.NewTxFromBytes(b); err == nil {
			parsed = true
			tx.Hash()
			tx.Index()
		}
	}); err != nil {
		return err
	}
	use := func(blk *bchutil.Block) {
		parsed = true
		blk.Hash()
		blk.Bytes()
		blk.TxLoc()
		n := len(blk.Transactions())
		for _, i := range []int{-1, 0, n - 1, n, 1 << 30} {
			blk.Tx(i)
			blk.TxHash(i)
		}
		// a parsed block is what a node builds merkle proofs for
		if n <= 64 {
			flt := bloom.LoadFilter(wire.NewMsgFilterLoad([]byte{0xff, 0x01, 0x80}, 2, 7, wire.BloomUpdateAll))
			bloom.NewMerkleBlock(blk, flt)
			merkleblock.NewMerkleBlockWithFilter(blk, flt)
			var set []*chainhash.Hash
			if n > 0 {
				set = append(set, blk.Transactions()[n-1].Hash())
			}
			merkleblock.NewMerkleBlockWithTxnSet(blk, set)
		}
	}
	if err := guarded("NewBlockFromBytes", len(b), o, func() {
		if blk, err := bchutil.NewBlockFromBytes(b); err == nil {
			use(blk)
		}
	}); err != nil {
		return err
	}
	if err := guarded("NewBlockFromReader", len(b), o, func() {
		if blk, err := bchutil.NewBlockFromReader(bytes.NewReader(b)); err == nil {
			use(blk)
		}
	}); err != nil {
		return err
	}
	if parsed {
		o.NT()
		o.Class("C08:wire-parsed")
	}
	return nil
}

func varint(n uint64) []byte { return compactSize(n) }

func genC08Wire(t *rapid.T) c08Bytes {
	var c c08Bytes
	// a small valid transaction / block to start from
	spec := c16TxSpec{NIn: rapid.IntRange(1, 3).Draw(t, "nin"), NOut: rapid.IntRange(1, 3).Draw(t, "nout"),
		ScriptLen: rapid.IntRange(0, 30).Draw(t, "slen"), Salt: rapid.IntRange(0, 200).Draw(t, "salt"), Token: rapid.IntRange(0, 3).Draw(t, "tok"), Amount: 7}
	tx := buildC16Tx(spec, 1)
	raw, _ := serializeTx(tx)
	blk := wire.NewMsgBlock(&wire.BlockHeader{Version: 1})
	for i := rapid.IntRange(0, 3).Draw(t, "ntx"); i > 0; i-- {
		blk.AddTransaction(buildC16Tx(spec, i))
	}
	rawBlk, _ := serializeBlock(blk)
	count := func() uint64 { // declared counts: small, large-but-legal, capped so a defect stays measurable
		// while the wire-prealloc finding is listed, counts that make bchd allocate gigabytes are excluded by
		// construction (100000 declared elements still trip the allocation rule and are counted as excluded)
		if isKnown("wire-prealloc") {
			return rapid.SampledFrom([]uint64{0, 1, 2, 252, 253, 1000, 65535, 65536, 100000, 1 << 32, 1<<64 - 1}).Draw(t, "count")
		}
		return rapid.SampledFrom([]uint64{0, 1, 2, 252, 253, 1000, 65535, 65536, 100000, 1 << 24, 1 << 32, 1<<64 - 1}).Draw(t, "count")
	}
	switch rapid.IntRange(0, 7).Draw(t, "origin") {
	case 0:
		c.Origin, c.B = "valid-tx", raw
	case 1:
		c.Origin, c.B = "valid-block", rawBlk
	case 2: // tx with a declared input count and nothing behind it
		c.Origin = "tx-declared-inputs"
		c.B = append([]byte{1, 0, 0, 0}, varint(count())...)
		c.B = append(c.B, genBytes(t, "tail", 0, 60)...)
	case 3: // tx with one input and a declared output count
		c.Origin = "tx-declared-outputs"
		c.B = append([]byte{1, 0, 0, 0, 1}, make([]byte, 36)...)
		c.B = append(c.B, 0, 0xff, 0xff, 0xff, 0xff)
		c.B = append(c.B, varint(count())...)
		c.B = append(c.B, genBytes(t, "tail", 0, 60)...)
	case 4: // block header + declared transaction count
		c.Origin = "block-declared-txs"
		c.B = append(make([]byte, 80), varint(count())...)
		c.B = append(c.B, genBytes(t, "tail", 0, 100)...)
	case 5: // script length declared huge
		c.Origin = "tx-declared-script-length"
		c.B = append([]byte{1, 0, 0, 0, 1}, make([]byte, 36)...)
		c.B = append(c.B, varint(count())...)
		c.B = append(c.B, genBytes(t, "tail", 0, 60)...)
	case 6: // mutated valid bytes
		c.Origin = "mutated"
		src := raw
		if rapid.Bool().Draw(t, "blk") {
			src = rawBlk
		}
		c.B = append(HexBytes{}, src...)
		for i := rapid.IntRange(1, 4).Draw(t, "nm"); i > 0 && len(c.B) > 0; i-- {
			j := rapid.IntRange(0, len(c.B)-1).Draw(t, "j")
			switch rapid.IntRange(0, 2).Draw(t, "m") {
			case 0:
				c.B[j] = rapid.Byte().Draw(t, "v")
			case 1:
				c.B = c.B[:j]
			default:
				c.B = append(c.B[:j:j], append([]byte{0xfe}, c.B[j:]...)...)
			}
		}
	default:
		c.Origin = "random"
		c.B = rapid.SliceOfN(rapid.Byte(), 0, 300).Draw(t, "b")
	}
	return c
}

var kC08Wire = register(&Kind[c08Bytes]{Prop: "C08", Name: "wire", Gen: genC08Wire, Eval: evalC08Wire})

// ---- kind: bloom filter-load messages ---------------------------------------------------

type c08Filter struct {
	FilterLen int      `json:"filter_len"`
	Fill      byte     `json:"fill"`
	HashFuncs uint32   `json:"hash_funcs"`
	Tweak     uint32   `json:"tweak"`
	Flags     byte     `json:"flags"`
	ViaWire   bool     `json:"via_wire"`
	ReloadLen int      `json:"reload_len"`
	Item      HexBytes `json:"item"`
	Tx        c10Case  `json:"tx"`
	// NewFilter arguments
	Elements uint32 `json:"elements"`
	FPBits   uint64 `json:"fprate_bits"`
}

func evalC08Filter(c c08Filter, o *Obs) error {
	if c.FilterLen < 0 || c.FilterLen > wire.MaxFilterLoadFilterSize || c.HashFuncs > wire.MaxFilterLoadHashFuncs {
		return hbug("filter-load outside the wire limits")
	}
	data := bytes.Repeat([]byte{c.Fill}, c.FilterLen)
	msg := wire.NewMsgFilterLoad(data, c.HashFuncs, c.Tweak, wire.BloomUpdateType(c.Flags))
	if c.ViaWire {
		var buf bytes.Buffer
		if err := msg.BchEncode(&buf, wire.ProtocolVersion, wire.BaseEncoding); err != nil {
			return hbug("filterload encode: %v", err)
		}
		var dec wire.MsgFilterLoad
		if err := dec.BchDecode(&buf, wire.ProtocolVersion, wire.BaseEncoding); err != nil {
			return hbug("filterload decode: %v", err)
		}
		msg = &dec
		o.Class("C08:filterload-via-wire")
	}
	if c.FilterLen == 0 {
		o.Class("C08:filterload-empty-filter")
		if c.HashFuncs > 0 {
			o.Class("C08:filterload-empty-filter-with-hash-funcs")
		}
	}
	o.NT()
	txs, err := buildTxs(c.Tx)
	if err != nil {
		return err
	}
	inLen := c.FilterLen + 9 + len(c.Item)
	for _, b := range txs {
		inLen += b.msg.SerializeSize() // the transactions matched against the filter are input too
	}
	use := func(name string, f *bloom.Filter) error {
		return guarded(name, inLen+2000, o, func() {
			f.IsLoaded()
			f.Matches(c.Item)
			f.Add(c.Item)
			f.Matches(c.Item)
			var h chainhash.Hash
			copy(h[:], c.Item)
			f.AddHash(&h)
			op := wire.NewOutPoint(&h, c.Tweak)
			f.MatchesOutPoint(op)
			f.AddOutPoint(op)
			for _, b := range txs {
				f.MatchTxAndUpdate(bchutil.NewTx(b.msg))
			}
			if len(txs) > 0 {
				blk := wire.NewMsgBlock(&wire.BlockHeader{})
				for _, b := range txs {
					blk.AddTransaction(b.msg)
				}
				bloom.NewMerkleBlock(bchutil.NewBlock(blk), f)
				merkleblock.NewMerkleBlockWithFilter(bchutil.NewBlock(blk), f)
			}
			f.MsgFilterLoad()
		})
	}
	lf := bloom.LoadFilter(msg)
	if err := use("bloom.LoadFilter+ops", lf); err != nil {
		return err
	}
	// reload the same Filter object with a message of another size (incl. empty), and load late
	rl := c.ReloadLen
	if rl < 0 || rl > wire.MaxFilterLoadFilterSize {
		rl = 0
	}
	lf.Reload(wire.NewMsgFilterLoad(bytes.Repeat([]byte{c.Fill}, rl), c.HashFuncs, c.Tweak, wire.BloomUpdateType(c.Flags)))
	if err := use("Filter.Reload(other size)+ops", lf); err != nil {
		return err
	}
	late := bloom.LoadFilter(nil)
	if err := use("LoadFilter(nil)+ops", late); err != nil {
		return err
	}
	late.Reload(wire.NewMsgFilterLoad(bytes.Repeat([]byte{c.Fill}, c.FilterLen), c.HashFuncs, c.Tweak, wire.BloomUpdateType(c.Flags)))
	if err := use("LoadFilter(nil).Reload+ops", late); err != nil {
		return err
	}
	lf.Unload()
	if err := use("Unload+ops", lf); err != nil {
		return err
	}
	fp := math.Float64frombits(c.FPBits)
	var nf *bloom.Filter
	if err := guarded("bloom.NewFilter", 16, o, func() { nf = bloom.NewFilter(c.Elements, c.Tweak, fp, wire.BloomUpdateType(c.Flags)) }); err != nil {
		return err
	}
	if m := nf.MsgFilterLoad(); m != nil && len(m.Filter) == 0 {
		o.Class("C08:newfilter-empty-filter")
	}
	return use("bloom.NewFilter+ops", nf)
}

func genC08Filter(t *rapid.T) c08Filter {
	c := c08Filter{Tweak: rapid.Uint32().Draw(t, "tweak"), Flags: rapid.SampledFrom([]byte{0, 1, 2, 3, 4, 7, 0x80, 0xfe, 0xff}).Draw(t, "flags"),
		ViaWire: rapid.Bool().Draw(t, "wire"), Item: genBytes(t, "item", 0, 40), Fill: rapid.SampledFrom([]byte{0, 0xff, 0x55}).Draw(t, "fill")}
	c.FilterLen = rapid.SampledFrom([]int{0, 0, 1, 2, 36000, 35999}).Draw(t, "flen")
	if rapid.Bool().Draw(t, "flen_small") {
		c.FilterLen = rapid.IntRange(0, 64).Draw(t, "flen_s")
	}
	c.HashFuncs = uint32(rapid.SampledFrom([]int{0, 1, 3, 50}).Draw(t, "k"))
	c.ReloadLen = rapid.SampledFrom([]int{0, 1, 2, 7, 64, 36000}).Draw(t, "rlen")
	c.Elements = rapid.SampledFrom([]uint32{0, 1, 10, 1000, 1 << 31, 0xffffffff}).Draw(t, "elements")
	c.FPBits = rapid.SampledFrom([]uint64{math.Float64bits(0.01), math.Float64bits(1), math.Float64bits(0), math.Float64bits(-1), 0x7ff8000000000001, 0x7ff0000000000000, math.Float64bits(1e-300)}).Draw(t, "fp")
	c.Tx = genC10(t)
	if len(c.Tx.Txs) > 3 {
		c.Tx.Txs = c.Tx.Txs[:3]
	}
	return c
}

var kC08Filter = register(&Kind[c08Filter]{Prop: "C08", Name: "filterload", Gen: genC08Filter, Eval: evalC08Filter})

// ---- kind: block scans over layered spend graphs -------------------------------------------

type c08Scan struct {
	N       int    `json:"n"`     // transactions
	Fan     int    `json:"fan"`   // each transaction spends this many outputs of its parent(s)
	Span    int    `json:"span"`  // parents are among the next Span transactions in creation order
	Order   string `json:"order"` // children-first | parents-first | interleaved
	Flags   byte   `json:"flags"`
	Watched bool   `json:"watched"`          // the filter contains the script item every output carries
	Preset  int    `json:"preset,omitempty"` // 0: the item is added to the loaded filter; 1: the filter arrives with the item's bits set (a peer's filterload) and is never changed; 2: it arrives with every bit set
}

func (c c08Scan) build() (*wire.MsgBlock, []byte, int) {
	item := []byte{0xd1, 0xa9, 0x07, 0x4e}
	txs := make([]*wire.MsgTx, c.N)
	size := 0
	for i := c.N - 1; i >= 0; i-- {
		tx := wire.NewMsgTx(1)
		if i == c.N-1 {
			var h chainhash.Hash
			tx.AddTxIn(wire.NewTxIn(wire.NewOutPoint(&h, 0), nil))
		} else {
			for k := 0; k < c.Fan; k++ {
				p := i + 1 + k%c.Span
				if p >= c.N {
					p = c.N - 1
				}
				ph := txs[p].TxHash()
				tx.AddTxIn(wire.NewTxIn(wire.NewOutPoint(&ph, uint32(k)), nil))
			}
		}
		script := append([]byte{4}, item...)
		for k := 0; k < c.Fan; k++ {
			tx.AddTxOut(wire.NewTxOut(int64(k+1), script, wire.TokenData{}))
		}
		tx.LockTime = uint32(i)
		txs[i] = tx
		size += tx.SerializeSize()
	}
	blk := wire.NewMsgBlock(&wire.BlockHeader{})
	switch c.Order {
	case "parents-first":
		for i := c.N - 1; i >= 0; i-- {
			blk.AddTransaction(txs[i])
		}
	case "interleaved":
		for i := 0; i < c.N; i += 2 {
			blk.AddTransaction(txs[i])
		}
		for i := 1; i < c.N; i += 2 {
			blk.AddTransaction(txs[i])
		}
	default:
		for _, tx := range txs {
			blk.AddTransaction(tx)
		}
	}
	return blk, item, size + 81
}

func evalC08Scan(c c08Scan, o *Obs) error {
	if c.N < 1 || c.N > 600 || c.Fan < 1 || c.Fan > 4 || c.Span < 1 {
		return hbug("bad scan case")
	}
	blk, item, size := c.build()
	o.NT()
	o.Class("C08:scan-order=" + c.Order)
	if c.N >= 30 {
		o.Class("C08:scan-deep-spend-graph")
	}
	if c.Preset != 0 {
		o.Class("C08:scan-filter-as-received-never-changed")
	}
	mk := func() *bloom.Filter {
		f := bloom.LoadFilter(wire.NewMsgFilterLoad(make([]byte, 512), 5, 1, wire.BloomUpdateType(c.Flags)))
		if c.Watched {
			f.Add(item)
		}
		if c.Preset != 0 {
			bits := append([]byte{}, f.MsgFilterLoad().Filter...)
			if c.Preset == 2 {
				for i := range bits {
					bits[i] = 0xff
				}
			}
			f = bloom.LoadFilter(wire.NewMsgFilterLoad(bits, 5, 1, wire.BloomUpdateType(c.Flags)))
		}
		return f
	}
	// a block of a few kilobytes must be scanned in well under two seconds (quadratic cost would be
	// microseconds); exponential re-checking of dependants shows up from about 20 transactions
	if err := guardedLimit("bloom.GetMatchedIndices", size, 2.0, o, func() { bloom.GetMatchedIndices(bchutil.NewBlock(blk), mk()) }); err != nil {
		return fmt.Errorf("%v (block of %d transactions, each spending %d outputs of earlier ones, order %s)", err, c.N, c.Fan, c.Order)
	}
	if err := guardedLimit("bloom.NewMerkleBlock", size, 2.0, o, func() { bloom.NewMerkleBlock(bchutil.NewBlock(blk), mk()) }); err != nil {
		return err
	}
	return guardedLimit("merkleblock.NewMerkleBlockWithFilter", size, 2.0, o, func() { merkleblock.NewMerkleBlockWithFilter(bchutil.NewBlock(blk), mk()) })
}

var kC08Scan = register(&Kind[c08Scan]{
	Prop: "C08", Name: "blockscan",
	Gen: func(t *rapid.T) c08Scan {
		c := c08Scan{N: rapid.IntRange(1, 60).Draw(t, "n"), Fan: rapid.IntRange(1, 3).Draw(t, "fan"), Span: rapid.IntRange(1, 3).Draw(t, "span"),
			Order: rapid.SampledFrom([]string{"children-first", "parents-first", "interleaved"}).Draw(t, "order"),
			Flags: byte(rapid.IntRange(0, 2).Draw(t, "flags")), Watched: rapid.IntRange(0, 3).Draw(t, "watched") != 0,
			Preset: rapid.SampledFrom([]int{0, 0, 1, 1, 2}).Draw(t, "preset")}
		if rapid.IntRange(0, 9).Draw(t, "big") == 0 {
			c.N = rapid.IntRange(100, 400).Draw(t, "nbig")
			if rapid.Bool().Draw(t, "pow2") { // tree levels whose width is a power of two, or one off
				c.N = rapid.SampledFrom([]int{127, 128, 129, 255, 256, 257, 383, 384, 385, 509, 510, 511, 512, 513}).Draw(t, "npow2")
			}
		}
		if isKnown("scan-exponential") && c.Fan >= 2 && c.N > 14 {
			c.N = 14 // excluded by construction while the finding is listed
		}
		return c
	},
	Eval: evalC08Scan,
})

// ---- kind: merkle block messages --------------------------------------------------------

type c08Merkle struct {
	C       c12Case `json:"msg"`
	ViaWire bool    `json:"via_wire"`
}

func evalC08Merkle(c c08Merkle, o *Obs) error {
	_, ps := c12Hashes(c.C)
	msg := wire.MsgMerkleBlock{Transactions: c.C.Count, Hashes: ps, Flags: c.C.Flags}
	if c.ViaWire {
		var buf bytes.Buffer
		if err := msg.BchEncode(&buf, wire.ProtocolVersion, wire.BaseEncoding); err != nil {
			o.Class("C08:merkle-not-encodable")
			return nil
		}
		var dec wire.MsgMerkleBlock
		if err := dec.BchDecode(&buf, wire.ProtocolVersion, wire.BaseEncoding); err != nil {
			o.Class("C08:merkle-not-decodable")
			return nil
		}
		msg = dec
		o.Class("C08:merkle-via-wire")
	}
	o.NT()
	return guarded("merkleblock.ExtractMatches", 84+32*len(ps)+len(c.C.Flags), o, func() {
		p := merkleblock.NewMerkleBlockFromMsg(msg)
		p.ExtractMatches()
		p.GetMatches()
		p.GetItems()
		p.BadTree()
	})
}

var kC08Merkle = register(&Kind[c08Merkle]{
	Prop: "C08", Name: "merkleblock",
	Gen: func(t *rapid.T) c08Merkle {
		c := c08Merkle{C: genC12(t), ViaWire: rapid.Bool().Draw(t, "wire")}
		switch rapid.IntRange(0, 5).Draw(t, "deg") {
		case 0:
			c.C.Flags = nil
		case 1:
			c.C.Count = rapid.SampledFrom([]uint32{0, uint32(refTxnCap()), uint32(refTxnCap()) + 1, 0xffffffff, 0x80000000}).Draw(t, "count")
		case 2:
			c.C.Flags = bytes.Repeat([]byte{0xff}, rapid.IntRange(1, 2000).Draw(t, "ones"))
		}
		return c
	},
	Eval: evalC08Merkle,
})

// ---- kind: serialized GCS filters ---------------------------------------------------------

type c08GCS struct {
	N     uint32     `json:"n"` // declared element count
	P     uint8      `json:"p"`
	M     uint64     `json:"m"`
	Data  HexBytes   `json:"data"`
	NForm bool       `json:"n_prefixed"` // parse with FromNBytes (CompactSize(N) || data)
	Query []HexBytes `json:"query"`
	RawN  bool       `json:"raw_n,omitempty"` // NForm only: Data is the whole input, count prefix included
}

func evalC08GCS(c c08GCS, o *Obs) error {
	var key [16]byte
	var f *gcs.Filter
	var err error
	input := []byte(c.Data)
	if c.NForm && !c.RawN {
		input = append(compactSize(uint64(c.N)), c.Data...)
	}
	if e := guarded("gcs.FromBytes", len(input), o, func() {
		if c.NForm {
			f, err = gcs.FromNBytes(c.P, c.M, input)
		} else {
			f, err = gcs.FromBytes(c.N, c.P, c.M, input)
		}
	}); e != nil {
		return e
	}
	if err != nil {
		o.Class("C08:gcs-rejected")
		return nil
	}
	o.NT()
	if uint64(c.N) > 64*uint64(len(c.Data))+64 {
		o.Class("C08:gcs-declared-count-far-above-data")
	}
	var q [][]byte
	qlen := 0
	for _, x := range c.Query {
		q = append(q, x)
		qlen += len(x) + 8
	}
	inLen := len(input) + qlen
	steps := []struct {
		name string
		f    func()
	}{
		{"gcs.Match", func() {
			for _, x := range q {
				f.Match(key, x)
			}
		}},
		{"gcs.ZipMatchAny", func() { f.ZipMatchAny(key, q) }},
		{"gcs.HashMatchAny", func() { f.HashMatchAny(key, q) }},
		{"gcs.MatchAny", func() { f.MatchAny(key, q) }},
		{"gcs serialisers", func() { f.NBytes(); f.PBytes(); f.NPBytes(); f.Bytes() }},
	}
	for _, st := range steps {
		if err := guarded(st.name, inLen, o, st.f); err != nil {
			return err
		}
	}
	return nil
}

var kC08GCS = register(&Kind[c08GCS]{
	Prop: "C08", Name: "gcs",
	Gen: func(t *rapid.T) c08GCS {
		c := c08GCS{P: uint8(rapid.SampledFrom([]int{0, 1, 8, 19, 20, 32, 33, 255}).Draw(t, "p")), NForm: rapid.Bool().Draw(t, "nform")}
		if c.NForm && rapid.IntRange(0, 3).Draw(t, "rawn") == 0 {
			// the bytes as they come, count prefix included: every discriminant byte with every short tail
			c.RawN = true
			c.M = rapid.SampledFrom([]uint64{1, 784931, 1 << 20}).Draw(t, "mraw")
			first := rapid.SampledFrom([]byte{0x00, 0x01, 0xfc, 0xfd, 0xfd, 0xfe, 0xfe, 0xff, 0xff}).Draw(t, "disc")
			tail := rapid.SliceOfN(rapid.SampledFrom([]byte{0, 1, 0xff, 0x80}), 0, 10).Draw(t, "tail")
			c.Data = append([]byte{first}, tail...)
			if rapid.IntRange(0, 5).Draw(t, "nothing") == 0 {
				c.Data = nil
			}
			return c
		}
		// declared N: capped at 2^26 so that a defective tree over-allocates measurably (~1 GiB) but does not kill the sandbox
		c.N = rapid.SampledFrom([]uint32{0, 1, 2, 100, 65536, 1 << 20, 1 << 25, 1 << 26}).Draw(t, "n")
		c.M = rapid.SampledFrom([]uint64{0, 1, 784931, 1 << 20, 1 << 32, 1 << 40}).Draw(t, "m")
		switch rapid.IntRange(0, 3).Draw(t, "dcls") {
		case 0:
			c.Data = bytes.Repeat([]byte{0xff}, rapid.IntRange(0, 64).Draw(t, "ones"))
		case 1:
			c.Data = make([]byte, rapid.IntRange(0, 64).Draw(t, "zeros"))
		default:
			c.Data = rapid.SliceOfN(rapid.Byte(), 0, 64).Draw(t, "data")
		}
		if rapid.IntRange(0, 3).Draw(t, "runs") == 0 {
			// runs of 20..80 one-bits starting at every bit offset, between stretches of zeros and noise: unary parts
			// that straddle byte and word boundaries
			var bitsOut []bool
			for seg := rapid.IntRange(1, 4).Draw(t, "segs"); seg > 0; seg-- {
				for z := rapid.IntRange(0, 9).Draw(t, "zeros"); z > 0; z-- {
					bitsOut = append(bitsOut, false)
				}
				for r := rapid.IntRange(20, 80).Draw(t, "ones"); r > 0; r-- {
					bitsOut = append(bitsOut, true)
				}
				bitsOut = append(bitsOut, false)
				for r := rapid.IntRange(0, 25).Draw(t, "rest"); r > 0; r-- {
					bitsOut = append(bitsOut, rapid.Bool().Draw(t, "bit"))
				}
			}
			c.Data = make([]byte, (len(bitsOut)+7)/8)
			for i, b := range bitsOut {
				if b {
					c.Data[i/8] |= 0x80 >> uint(i%8)
				}
			}
			c.N = uint32(rapid.IntRange(1, 6).Draw(t, "nruns"))
			c.P = uint8(rapid.SampledFrom([]int{0, 8, 19, 20, 32}).Draw(t, "pruns"))
			c.M = rapid.SampledFrom([]uint64{1, 784931, 1 << 20, 1 << 40}).Draw(t, "mruns")
		}
		for i := rapid.IntRange(0, 4).Draw(t, "nq"); i > 0; i-- {
			c.Query = append(c.Query, genBytes(t, "q", 0, 20))
		}
		return c
	},
	Eval: evalC08GCS,
})

// ---- kind: JSON for the protobuf unmarshaller ---------------------------------------------

type c08JSON struct {
	Doc    string `json:"doc"`
	Target int    `json:"target"`
}

func c08Targets() []proto.Message {
	return []proto.Message{&pb.TransactionNotification{}, &pb.Transaction{}, &pb.GetHeadersRequest{}, &pb.TransactionFilter{}, &pb.Block{}}
}

func evalC08JSON(c c08JSON, o *Obs) error {
	ts := c08Targets()
	if json.Valid([]byte(c.Doc)) {
		o.NT()
		o.Class("C08:json-valid")
	} else {
		o.Class("C08:json-invalid")
	}
	if err := guarded("jsonpb.Unmarshal", len(c.Doc), o, func() {
		if err := jsonpb.Unmarshal(strings.NewReader(c.Doc), ts[((c.Target%len(ts))+len(ts))%len(ts)]); err == nil {
			o.Class("C08:json-unmarshalled")
		}
	}); err != nil {
		return err
	}
	return guarded("jsonpb.UnmarshalNext", len(c.Doc), o, func() {
		dec := json.NewDecoder(strings.NewReader(c.Doc))
		jsonpb.UnmarshalNext(dec, c08Targets()[((c.Target%len(ts))+len(ts))%len(ts)])
	})
}

var c08Keys = []string{"unconfirmed_transaction", "confirmed_transaction", "transaction", "hash", "inputs", "outputs", "pubkey_script",
	"signature_script", "outpoint", "index", "value", "type", "addresses", "all_transactions", "outpoints", "data_elements",
	"block_locator_hashes", "stop_hash", "info", "transaction_data", "transaction_hash", "version", "lock_time", "x"}

func genJSONValue(t *rapid.T, depth int, sb *strings.Builder) {
	cls := rapid.IntRange(0, 11).Draw(t, "vcls")
	if depth <= 0 && cls >= 8 {
		cls = 0
	}
	switch cls {
	case 0:
		sb.WriteString(`"` + strings.Repeat("ab", rapid.IntRange(0, 34).Draw(t, "hexlen")) + `"`)
	case 1: // 64 hex digits
		sb.WriteString(`"` + strings.Repeat(rapid.SampledFrom([]string{"00", "ff", "1a", "zz"}).Draw(t, "hx"), 32) + `"`)
	case 2:
		sb.WriteString(rapid.SampledFrom([]string{`"UNCONFIRMED"`, `"x"`, `""`, `"AAAA"`, `"0"`, `"é"`}).Draw(t, "str"))
	case 3:
		sb.WriteString(rapid.SampledFrom([]string{"0", "1", "-1", "1.5", "1e400", "18446744073709551616", "12345678901234567890"}).Draw(t, "num"))
	case 4:
		sb.WriteString(rapid.SampledFrom([]string{"true", "false"}).Draw(t, "bool"))
	case 5:
		sb.WriteString("null")
	case 6, 7, 8: // array, possibly heterogeneous
		sb.WriteByte('[')
		n := rapid.IntRange(0, 4).Draw(t, "alen")
		for i := 0; i < n; i++ {
			if i > 0 {
				sb.WriteByte(',')
			}
			genJSONValue(t, depth-1, sb)
		}
		sb.WriteByte(']')
	default: // object
		sb.WriteByte('{')
		n := rapid.IntRange(0, 4).Draw(t, "olen")
		for i := 0; i < n; i++ {
			if i > 0 {
				sb.WriteByte(',')
			}
			sb.WriteString(`"` + rapid.SampledFrom(c08Keys).Draw(t, "key") + `":`)
			genJSONValue(t, depth-1, sb)
		}
		sb.WriteByte('}')
	}
}

var kC08JSON = register(&Kind[c08JSON]{
	Prop: "C08", Name: "json",
	Gen: func(t *rapid.T) c08JSON {
		c := c08JSON{Target: rapid.IntRange(0, 4).Draw(t, "target")}
		var sb strings.Builder
		switch rapid.IntRange(0, 9).Draw(t, "shape") {
		case 0: // deep nesting
			d := rapid.IntRange(50, 200).Draw(t, "depth")
			open, cl := "[", "]"
			if rapid.Bool().Draw(t, "obj") {
				open, cl = `{"x":`, "}"
			}
			sb.WriteString(strings.Repeat(open, d) + "1" + strings.Repeat(cl, d))
		case 1: // truncated / syntactically broken
			genJSONValue(t, 4, &sb)
			s := sb.String()
			sb.Reset()
			sb.WriteString(s[:rapid.IntRange(0, len(s)).Draw(t, "cut")])
		default:
			sb.WriteByte('{')
			n := rapid.IntRange(0, 5).Draw(t, "n")
			for i := 0; i < n; i++ {
				if i > 0 {
					sb.WriteByte(',')
				}
				sb.WriteString(`"` + rapid.SampledFrom(c08Keys).Draw(t, "key") + `":`)
				genJSONValue(t, 5, &sb)
			}
			sb.WriteByte('}')
		}
		c.Doc = sb.String()
		return c
	},
	Eval: evalC08JSON,
})

// ---- kind: ConvertBits / NewAddress* on raw bytes --------------------------------------------

type c08Raw struct {
	B    HexBytes `json:"b"`
	From uint8    `json:"from"`
	To   uint8    `json:"to"`
	Pad  bool     `json:"pad"`
}

var kC08Raw = register(&Kind[c08Raw]{
	Prop: "C08", Name: "rawbytes",
	Gen: func(t *rapid.T) c08Raw {
		return c08Raw{B: genBytes(t, "b", 0, 200), From: uint8(rapid.IntRange(0, 9).Draw(t, "from")), To: uint8(rapid.IntRange(0, 9).Draw(t, "to")), Pad: rapid.Bool().Draw(t, "pad")}
	},
	Eval: func(c c08Raw, o *Obs) error {
		if len(c.B) > 0 {
			o.NT()
		}
		return guarded("raw-bytes entry points", len(c.B), o, func() {
			bech32.ConvertBits(c.B, c.From, c.To, c.Pad)
			bech32.Encode("a", c.B)
			for _, n := range nets[:2] {
				bchutil.NewAddressPubKey(c.B, n.Params)
				bchutil.NewAddressPubKeyHash(c.B, n.Params)
				bchutil.NewAddressScriptHashFromHash(c.B, n.Params)
				bchutil.NewAddressScriptHash32FromHash(c.B, n.Params)
				bchutil.NewLegacyAddressPubKeyHash(c.B, n.Params)
				hdkeychain.NewMaster(c.B, n.Params)
			}
			base58.CheckEncode(c.B, 0)
		})
	},
})

// ---- kind: filterload storm -----------------------------------------------------------------
// A peer may send a new filterload (any size within the wire limits), or a filterclear, at any moment, while
// the node matches relayed data against the filter on other goroutines.  Nothing may panic.

type c08Storm struct {
	Sizes   []int    `json:"sizes"` // 0 = filterclear (Unload)
	K       uint32   `json:"k"`
	Tweak   uint32   `json:"tweak"`
	Item    HexBytes `json:"item"`
	Iters   int      `json:"iters"`
	Readers int      `json:"readers"`
}

func evalC08Storm(c c08Storm, o *Obs) error {
	if len(c.Sizes) < 1 || len(c.Sizes) > 8 || c.K > wire.MaxFilterLoadHashFuncs || c.Iters < 1 || c.Iters > 200000 || c.Readers < 1 || c.Readers > 16 {
		return hbug("bad storm")
	}
	for _, n := range c.Sizes {
		if n < 0 || n > wire.MaxFilterLoadFilterSize {
			return hbug("filter-load outside the wire limits")
		}
	}
	o.NT()
	o.Class("C08:filterload-storm")
	f := bloom.LoadFilter(nil)
	var h chainhash.Hash
	copy(h[:], c.Item)
	op := wire.NewOutPoint(&h, c.Tweak)
	var mu sync.Mutex
	var first error
	guard := func() {
		if r := recover(); r != nil {
			st := string(debug.Stack())
			mu.Lock()
			if first == nil {
				if strings.Contains(st, "github.com/gcash/bchutil") || strings.Contains(st, "/repo/") {
					first = fmt.Errorf("panic while a peer re-loads the filter with sizes %v (0 = clear) and %d goroutines match against it: %v\n%s", c.Sizes, c.Readers, r, trimStack(st))
				} else {
					first = hbug("panic in harness: %v\n%s", r, trimStack(st))
				}
			}
			mu.Unlock()
		}
	}
	var wg sync.WaitGroup
	var stop atomic.Bool
	wd := time.AfterFunc(c08HangSeconds*time.Second, func() {
		if outDir != "" {
			os.WriteFile(filepath.Join(outDir, "hang.txt"), []byte("filter operations did not return within 90 s while the filter was being re-loaded"), 0o644)
		}
		fmt.Printf("HANG property=C08 filterload storm did not return\n")
		os.Exit(3)
	})
	defer wd.Stop()
	for r := 0; r < c.Readers; r++ {
		r := r
		wg.Add(1)
		go func() {
			defer wg.Done()
			defer guard()
			for !stop.Load() {
				switch r % 4 {
				case 0:
					f.Matches(c.Item)
				case 1:
					f.MatchesOutPoint(op)
				case 2:
					f.Add(c.Item)
				case 3:
					f.IsLoaded()
					f.MsgFilterLoad()
				}
			}
		}()
	}
	wg.Add(1)
	go func() {
		defer wg.Done()
		defer guard()
		defer stop.Store(true)
		for i := 0; i < c.Iters; i++ {
			n := c.Sizes[i%len(c.Sizes)]
			if n == 0 {
				f.Unload()
			} else {
				f.Reload(wire.NewMsgFilterLoad(make([]byte, n), c.K, c.Tweak, wire.BloomUpdateAll))
			}
			mu.Lock()
			failed := first != nil
			mu.Unlock()
			if failed {
				return
			}
		}
	}()
	wg.Wait()
	return first
}

var kC08Storm = register(&Kind[c08Storm]{Prop: "C08", Name: "filterload-storm", Eval: evalC08Storm,
	Gen: func(t *rapid.T) c08Storm {
		c := c08Storm{K: uint32(rapid.SampledFrom([]int{1, 3, 50}).Draw(t, "k")), Tweak: rapid.Uint32().Draw(t, "tweak"),
			Item: genBytes(t, "item", 1, 40), Iters: rapid.IntRange(2000, 20000).Draw(t, "iters"), Readers: rapid.IntRange(2, 8).Draw(t, "readers")}
		n := rapid.IntRange(2, 5).Draw(t, "nsizes")
		for i := 0; i < n; i++ {
			c.Sizes = append(c.Sizes, rapid.SampledFrom([]int{0, 1, 1, 2, 8, 512, 36000}).Draw(t, "size"))
		}
		return c
	}})

func TestC08(t *testing.T) {
	propTest(t, "C08", func(ev *Ev) {
		ev.Rule("one kind per family of entry points, inputs structured first and mutated second: (strings) address classes of C02, "+
			"CashAddr strings with a valid checksum over 0..7 payload symbols (constructed so the checksum overlaps prefix and "+
			"separator) and over 0..120 arbitrary symbols, Base58Check of 0..6 bytes, hostile extended-key / WIF payloads with "+
			"recomputed checksums, bech32 mutations, 16 KB repetitions, random bytes -> DecodeAddress x6 nets, DecodeCashAddress, "+
			"DecodeWIF, base58.Decode/CheckDecode, bech32.Decode, hdkeychain.NewKeyFromString (+ accessors); (wire) valid / mutated / "+
			"declared-count transactions and blocks -> NewTxFromBytes, NewBlockFromBytes, NewBlockFromReader (+ accessors); "+
			"(filterload) messages within the wire limits incl. empty filter with non-zero hash count, 36000 bytes, 50 functions, "+
			"built directly and via wire decoding, and NewFilter on hostile arguments -> Add/Matches/MatchesOutPoint/"+
			"MatchTxAndUpdate/merkle-block builders; (merkleblock) messages incl. count 0 / > limit / 2^32-1, empty flags, 2000 "+
			"flag bytes; (gcs) FromBytes/FromNBytes with declared N up to 2^26 over 0..64 data bytes, P 0..255, M 0..2^40 -> "+
			"Match/MatchAny/ZipMatchAny/HashMatchAny; (json) grammar producing heterogeneous arrays, nesting to depth 200, nulls, "+
			"64-hex strings, numbers in string position, truncated documents -> jsonpb.Unmarshal/UnmarshalNext into five message "+
			"types; (filterload-storm) one goroutine re-loads / clears the filter with messages of 1..36000 bytes while 2..8 others match and insert (no panic in any of them). Oracle: no panic; a call slower than 10 s twice is a hang; bytes allocated (TotalAlloc delta) <= 2 MiB + "+
			"8 KiB per input byte. Non-trivial = the input passed the outer validation layer of some entry point.",
			"allocation inside bchd's wire decoder by declared input/output/transaction counts is a listed known finding (wire-prealloc) with an allowance of 4 GiB (29.8M declared outputs x 112 bytes)",
			"'at most quadratic time' is only checked as: no call on an input <= 16 KiB takes more than 10 s twice")
		// regression / known-finding cases
		if shard == 0 {
			big := append([]byte{1, 0, 0, 0}, varint(6500000)...)
			o := &Obs{}
			err := safeEval(evalC08Wire, c08Bytes{B: big, Origin: "tx-declared-inputs"}, o)
			if err != nil {
				kC08Wire.One(ev, c08Bytes{B: big, Origin: "tx-declared-inputs"})
			} else if len(o.excluded) > 0 {
				ev.KnownStill("wire-prealloc", findingText("wire-prealloc"))
				ev.mu.Lock()
				ev.excluded["wire-prealloc"]++
				ev.mu.Unlock()
			}
			kC08Str.One(ev, c08Str{S: "aaaad:qqqqqqq", Origin: "regression"})
			kC08Filter.One(ev, c08Filter{FilterLen: 0, HashFuncs: 3, Item: HexBytes{1}, Tx: c10Case{Len: 1, K: 1}})
			kC08JSON.One(ev, c08JSON{Doc: `{"a":["ab",1]}`, Target: 0})
			kC08GCS.One(ev, c08GCS{N: 1 << 25, P: 19, M: 784931, Data: HexBytes{0}, NForm: true, Query: []HexBytes{{1}}})
		}
		kC08Str.Run(t, ev, perShard(pick(4000, 200000)))
		kC08Wire.Run(t, ev, perShard(pick(2500, 100000)))
		kC08Filter.Run(t, ev, perShard(pick(1500, 60000)))
		kC08Merkle.Run(t, ev, perShard(pick(3000, 150000)))
		kC08GCS.Run(t, ev, perShard(pick(2500, 100000)))
		kC08JSON.Run(t, ev, perShard(pick(4000, 200000)))
		kC08Raw.Run(t, ev, perShard(pick(1500, 60000)))
		if shard == 0 {
			kC08Scan.One(ev, c08Scan{N: 20, Fan: 2, Span: 1, Order: "children-first", Flags: 1, Watched: true})
			kC08Wire.One(ev, c08Bytes{B: append(make([]byte, 80), 0), Origin: "valid-block"}) // block without transactions
		}
		kC08Scan.Run(t, ev, perShard(pick(600, 30000)))
		kC08Storm.Run(t, ev, perShard(pick(40, 1200)))
		// queries of every size from 1 to 420 (this shard's quarter of them) against one honest filter of 1000 elements
		{
			var members [][]byte
			for i := 0; i < 1000; i++ {
				members = append(members, derivedItem(uint32(seedEnv)+21, i))
			}
			var key [16]byte
			if hf, err := gcs.BuildGCSFilter(19, 784931, key, members); err == nil {
				raw, _ := hf.Bytes()
				var q []HexBytes
				for n := 1; n <= 420; n++ {
					q = append(q, derivedItem(uint32(seedEnv)+22, n))
					if n%nShards == shard {
						kC08GCS.One(ev, c08GCS{N: hf.N(), P: 19, M: 784931, Data: raw, Query: append([]HexBytes{}, q...)})
					}
				}
			}
		}
		ev.requireClasses("C08:str-origin=short-cashaddr", "C08:str-passed-outer-layer", "C08:wire-parsed",
			"C08:filterload-empty-filter-with-hash-funcs", "C08:filterload-via-wire", "C08:merkle-via-wire",
			"C08:gcs-declared-count-far-above-data", "C08:json-valid", "C08:json-unmarshalled", "C08:scan-deep-spend-graph", "C08:filterload-storm")
	})
}
