package harness

// C20 A bloom filter may be used from many goroutines at once.
// Built with -race (the driver uses the race build for this property).  The harness
// puts no synchronisation between the worker goroutines besides the start barrier
// (one channel close) and the join (one WaitGroup).

import (
	"bytes"
	"encoding/json"
	"fmt"
	"os"
	"path/filepath"
	"runtime"
	"runtime/debug"
	"strings"
	"sync"
	"sync/atomic"
	"testing"
	"time"

	"github.com/anishathalye/porcupine"
	"github.com/gcash/bchd/wire"
	"github.com/gcash/bchutil"
	"github.com/gcash/bchutil/bloom"
	"github.com/gcash/bchutil/gcs"
	"pgregory.net/rapid"
)

type c20Op struct {
	Op    string `json:"op"` // isloaded reload unload add addhash addoutpoint matches matchesoutpoint matchtx msg
	Item  int    `json:"item,omitempty"`
	Index uint32 `json:"index,omitempty"`
	Len   int    `json:"len,omitempty"`
	K     uint32 `json:"k,omitempty"`
	Hot   bool   `json:"hot,omitempty"` // reload: the new message already contains the pre-load items
}

type c20Case struct {
	Len     int        `json:"len"`
	K       uint32     `json:"k"`
	Tweak   uint32     `json:"tweak"`
	Flags   byte       `json:"flags"`
	Items   []HexBytes `json:"items"`
	Preload int        `json:"preload"` // this many items are inserted before the goroutines start
	Txs     c10Case    `json:"txs"`     // transactions for matchtx (pool / tx specs reused from C10)
	Progs   [][]c20Op  `json:"programs"`
	Reps    int        `json:"reps"`
	Linear  bool       `json:"check_linearizability"`
}

type c20Event struct {
	g, i      int
	op        c20Op
	call, ret int64
	out       bool
	outValid  bool
}

// bloomState is the sequential model state for porcupine.
type bloomState struct {
	loaded bool
	bits   string
	k      uint32
	tweak  uint32
	flags  byte
}

func (s bloomState) ref() *refBloom {
	return &refBloom{loaded: s.loaded, bits: []byte(s.bits), k: s.k, tweak: s.tweak, flags: s.flags}
}

func fromRef(m *refBloom) bloomState {
	return bloomState{loaded: m.loaded, bits: string(m.bits), k: m.k, tweak: m.tweak, flags: m.flags}
}

type c20Input struct {
	op   c20Op
	data []byte
	tx   *builtTx
	hot  [][]byte // items a hot reload message is pre-filled with
}

func c20ItemBytes(c c20Case, op c20Op) []byte {
	if len(c.Items) == 0 {
		return []byte{1}
	}
	it := c.Items[((op.Item%len(c.Items))+len(c.Items))%len(c.Items)]
	switch op.Op {
	case "addhash":
		h := make([]byte, 32)
		copy(h, it)
		return h
	case "addoutpoint", "matchesoutpoint":
		h := make([]byte, 32)
		copy(h, it)
		return outpointBytes(h, op.Index)
	}
	return it
}

// stepModel applies one operation to the sequential model; returns the expected
// output (if the op has one) and the new state.
func stepModel(s bloomState, in c20Input, tweak uint32) (out bool, hasOut bool, ns bloomState) {
	m := s.ref()
	m.bits = append([]byte{}, m.bits...)
	switch in.op.Op {
	case "isloaded":
		return m.loaded, true, s
	case "reload":
		nm := newRefBloom(in.op.Len, in.op.K, tweak, s.flags)
		for _, it := range in.hot {
			nm.add(it)
		}
		return false, false, fromRef(nm)
	case "unload":
		m.loaded = false
		m.bits = nil
		return false, false, fromRef(m)
	case "add", "addhash", "addoutpoint":
		m.add(in.data)
		return false, false, fromRef(m)
	case "matches", "matchesoutpoint":
		return m.has(in.data), true, s
	case "matchtx":
		if !m.loaded {
			return false, true, s
		}
		ok, _ := modelMatchTx(m, in.tx, true)
		return ok, true, fromRef(m)
	case "msg":
		return m.loaded, true, s
	}
	return false, false, s
}

func evalC20(c c20Case, o *Obs) error {
	if c.Len < 1 || c.Len > 4096 || c.K > 50 || len(c.Progs) < 1 || len(c.Progs) > 64 {
		return hbug("bad program")
	}
	if outDir != "" { // for attribution if the race detector halts the process
		js, _ := json.Marshal(map[string]any{"property": "C20", "kind": "program", "case": c})
		os.WriteFile(filepath.Join(outDir, "current-case.json"), js, 0o644)
		if currentEv != nil && currentEv.evaluations%10 == 0 {
			currentEv.flush()
		}
	}
	txs, err := buildTxs(c.Txs)
	if err != nil {
		return err
	}
	// The goroutines hand the same, not yet hashed *bchutil.Tx to MatchTxAndUpdate of the shared filter (fresh
	// wrappers per repetition, below).  The harness never touches those wrappers itself.
	wrapped := make([]*bchutil.Tx, len(txs))
	hasReload, hasTx, hasAdd := false, false, false
	writers, readers := 0, 0
	inputs := make([][]c20Input, len(c.Progs))
	for g, prog := range c.Progs {
		for _, op := range prog {
			in := c20Input{op: op, data: c20ItemBytes(c, op)}
			switch op.Op {
			case "reload":
				if op.Len < 1 || op.Len > 4096 || op.K > 50 {
					return hbug("bad reload")
				}
				hasReload = true
				writers++
				if op.Hot {
					for i := 0; i < c.Preload && i < len(c.Items); i++ {
						in.hot = append(in.hot, c.Items[i])
					}
				}
			case "unload":
				hasReload = true
				writers++
			case "matchtx":
				if len(txs) == 0 {
					return hbug("matchtx without transactions")
				}
				in.tx = txs[((op.Item%len(txs))+len(txs))%len(txs)]
				hasTx = true
				writers++
			case "scan":
				// a block scan for this filter (what a node does for a peer while the peer keeps sending filteradd):
				// built from the documented-safe operations only, so it may run next to them; no sequential
				// model (it is many operations), only the race detector and the absence of panics judge it
				if len(txs) == 0 || c.Linear {
					return hbug("scan without transactions or in a linearizability program")
				}
				hasTx = true
				writers++
				o.Class("C20:with-block-scan")
			case "add", "addhash", "addoutpoint":
				writers++
				hasAdd = true
			default:
				readers++
			}
			inputs[g] = append(inputs[g], in)
		}
	}
	if len(c.Progs) >= 2 && writers >= 1 && writers+readers >= 2 {
		o.NT()
	}
	o.Class("C20:goroutines=%d", len(c.Progs))
	reps := c.Reps
	if reps < 1 {
		reps = 1
	}
	if os.Getenv("VERIF_REPLAY") != "" {
		reps = 1000 // schedule-dependent: a replay re-executes the program many times under -race
	}
	// A second, unrelated filter is driven by one goroutine of its own while the program runs: whatever the shared
	// filter's users do, this one must behave exactly like the sequential model (filters share nothing).
	var byOps []c20Input
	for j, it := range c.Items {
		h := make([]byte, 32)
		copy(h, it)
		op := c20Op{Op: "addoutpoint", Item: j, Index: uint32(j)}
		byOps = append(byOps, c20Input{op: op, data: outpointBytes(h, uint32(j))})
		op.Op = "matchesoutpoint"
		byOps = append(byOps, c20Input{op: op, data: outpointBytes(h, uint32(j))})
		byOps = append(byOps, c20Input{op: c20Op{Op: "add", Item: j}, data: it}, c20Input{op: c20Op{Op: "matches", Item: j}, data: it})
	}
	for i := range txs {
		byOps = append(byOps, c20Input{op: c20Op{Op: "matchtx", Item: i}, tx: txs[i]})
	}
	byLen, byK, byTweak := int(c.Len%97+8), c.K%7+1, c.Tweak+1
	byWant := make([]bool, len(byOps))
	byState := fromRef(newRefBloom(byLen, byK, byTweak, byte(wire.BloomUpdateAll)))
	for i, in := range byOps {
		byWant[i], _, byState = stepModel(byState, in, byTweak)
	}
	byWrapped := make([]*bchutil.Tx, len(txs))
	for i, b := range txs {
		byWrapped[i] = bchutil.NewTx(b.msg)
		byWrapped[i].Hash()
	}
	overlaps := 0
	defer c20Watchdog("a generated program", 90)()
	for rep := 0; rep < reps; rep++ {
		f := bloom.LoadFilter(wire.NewMsgFilterLoad(make([]byte, c.Len), c.K, c.Tweak, wire.BloomUpdateType(c.Flags)))
		for i := 0; i < c.Preload && i < len(c.Items); i++ {
			f.Add(c.Items[i])
		}
		for i, b := range txs {
			wrapped[i] = bchutil.NewTx(b.msg)
		}
		// fresh reload messages per repetition (each goroutine owns its messages until it hands them over)
		reloadMsgs := make([][]*wire.MsgFilterLoad, len(c.Progs))
		for g, prog := range c.Progs {
			reloadMsgs[g] = make([]*wire.MsgFilterLoad, len(prog))
			for i, op := range prog {
				if op.Op == "reload" {
					reloadMsgs[g][i] = wire.NewMsgFilterLoad(make([]byte, op.Len), op.K, c.Tweak, wire.BloomUpdateType(c.Flags))
					if op.Hot { // pre-filled by the harness before the goroutines start
						hm := newRefBloom(op.Len, op.K, c.Tweak, c.Flags)
						for _, it := range inputs[g][i].hot {
							hm.add(it)
						}
						copy(reloadMsgs[g][i].Filter, hm.bits)
					}
				}
			}
		}
		events := make([][]c20Event, len(c.Progs))
		panicCh := make(chan error, 64)
		start := make(chan struct{})
		var wg sync.WaitGroup
		t0 := time.Now()
		for g := range c.Progs {
			g := g
			events[g] = make([]c20Event, len(c.Progs[g]))
			wg.Add(1)
			go func() {
				defer wg.Done()
				defer c20Recover(panicCh)
				<-start
				scratch := make([]byte, 0, 2048) // this goroutine's own buffer: every item it hands to the filter travels in it
				for i, in := range inputs[g] {
					ev := &events[g][i]
					ev.g, ev.i, ev.op = g, i, in.op
					if (in.op.Op == "add" || in.op.Op == "matches") && len(in.data) <= cap(scratch) && g%2 == 0 {
						for k := range scratch[:cap(scratch)] {
							scratch[:cap(scratch)][k] = 0xee // what the previous call was given is gone
						}
						scratch = append(scratch[:0], in.data...)
						in.data = scratch
					}
					ev.call = int64(time.Since(t0))
					switch in.op.Op {
					case "isloaded":
						ev.out, ev.outValid = f.IsLoaded(), true
					case "reload":
						f.Reload(reloadMsgs[g][i])
					case "unload":
						f.Unload()
					case "add":
						f.Add(in.data)
					case "addhash":
						f.AddHash(toHash(in.data))
					case "addoutpoint":
						f.AddOutPoint(wire.NewOutPoint(toHash(in.data[:32]), in.op.Index))
					case "matches":
						ev.out, ev.outValid = f.Matches(in.data), true
					case "matchesoutpoint":
						ev.out, ev.outValid = f.MatchesOutPoint(wire.NewOutPoint(toHash(in.data[:32]), in.op.Index)), true
					case "matchtx":
						ev.out, ev.outValid = f.MatchTxAndUpdate(wrapped[((in.op.Item%len(txs))+len(txs))%len(txs)]), true
					case "scan":
						blk := wire.NewMsgBlock(&wire.BlockHeader{Version: 1})
						for _, b := range txs {
							blk.AddTransaction(b.msg)
						}
						if in.op.Item%2 == 0 {
							bloom.GetMatchedIndices(bchutil.NewBlock(blk), f)
						} else {
							bloom.NewMerkleBlock(bchutil.NewBlock(blk), f)
						}
					case "msg":
						ev.out, ev.outValid = f.MsgFilterLoad() != nil, true // contents are not touched while others run
					}
					ev.ret = int64(time.Since(t0))
					c20Progress.Add(1)
				}
			}()
		}
		f2 := bloom.LoadFilter(wire.NewMsgFilterLoad(make([]byte, byLen), byK, byTweak, wire.BloomUpdateAll))
		byGot := make([]bool, len(byOps))
		wg.Add(1)
		go func() {
			defer wg.Done()
			defer c20Recover(panicCh)
			<-start
			for i, in := range byOps {
				switch in.op.Op {
				case "add":
					f2.Add(in.data)
				case "addoutpoint":
					f2.AddOutPoint(wire.NewOutPoint(toHash(in.data[:32]), in.op.Index))
				case "matches":
					byGot[i] = f2.Matches(in.data)
				case "matchesoutpoint":
					byGot[i] = f2.MatchesOutPoint(wire.NewOutPoint(toHash(in.data[:32]), in.op.Index))
				case "matchtx":
					byGot[i] = f2.MatchTxAndUpdate(byWrapped[in.op.Item])
				}
				c20Progress.Add(1)
			}
		}()
		close(start)
		if err := c20Join(&wg, panicCh, progString(c)); err != nil {
			return err
		}
		// ---- after the join ----
		for i := range byOps {
			if byGot[i] != byWant[i] {
				return fmt.Errorf("a second filter used by one goroutine only, while the program ran on the first: step %d %s(%x) returned %v, the sequential model says %v (filters share state?); program %s",
					i, byOps[i].op.Op, clip(byOps[i].data), byGot[i], byWant[i], progString(c))
			}
		}
		if m2 := f2.MsgFilterLoad(); m2 == nil || string(m2.Filter) != byState.bits {
			return fmt.Errorf("a second filter used by one goroutine only, while the program ran on the first, ends with a bit array that differs from its sequential model (filters share state?); program %s", progString(c))
		}
		// (6) the two views of "is a filter loaded" agree once everything is quiet
		if loaded, msg := f.IsLoaded(), f.MsgFilterLoad(); loaded != (msg != nil) {
			return fmt.Errorf("after the join IsLoaded() = %v but MsgFilterLoad() returns nil=%v; program %s", loaded, msg == nil, progString(c))
		}
		var all []c20Event
		for g := range events {
			all = append(all, events[g]...)
		}
		for a := range all {
			for b := a + 1; b < len(all); b++ {
				if all[a].g != all[b].g && all[a].call < all[b].ret && all[b].call < all[a].ret {
					overlaps++
				}
			}
		}
		if hasReload && !hasAdd && c.K >= 1 {
			// (5) programs without insertions: a message that was loaded empty ("cold") can never match anything
			// in any sequential order of the calls, so nothing may ever be written into it
			for g := range reloadMsgs {
				for i, m := range reloadMsgs[g] {
					if m != nil && !c.Progs[g][i].Hot && !allZero(m.Filter) {
						return fmt.Errorf("a filter message that was loaded empty has bits set (%x) although the program contains no insertion: "+
							"an update computed against another message was written into it (no sequential order of the calls explains this); program %s",
							clip(m.Filter), progString(c))
					}
				}
			}
			o.Class("C20:cold-message-invariant-checked")
		}
		if !hasReload {
			// (3) nothing lost: every insertion is visible, bits are the OR of all insertions
			msg := f.MsgFilterLoad()
			if msg == nil {
				return fmt.Errorf("filter unloaded although no Unload was issued")
			}
			m := newRefBloom(c.Len, c.K, c.Tweak, c.Flags)
			for i := 0; i < c.Preload && i < len(c.Items); i++ {
				m.add(c.Items[i])
			}
			for g := range inputs {
				for _, in := range inputs[g] {
					switch in.op.Op {
					case "add", "addhash", "addoutpoint":
						m.add(in.data)
						if !f.Matches(in.data) {
							return fmt.Errorf("after the join, inserted item %x is not reported present (lost update); program %s", in.data, progString(c))
						}
					}
				}
			}
			if !hasTx && !bytes.Equal(msg.Filter, m.bits) {
				return fmt.Errorf("after the join the bit array %x differs from the OR of all insertions %x; program %s", clip(msg.Filter), clip(m.bits), progString(c))
			}
			// (4) a membership test that started after an insertion of the same item returned must see it
			for _, q := range all {
				if (q.op.Op != "matches" && q.op.Op != "matchesoutpoint") || q.out || c.K == 0 {
					continue
				}
				qd := c20ItemBytes(c, q.op)
				for _, w := range all {
					if w.op.Op != "add" && w.op.Op != "addhash" && w.op.Op != "addoutpoint" {
						continue
					}
					if bytes.Equal(c20ItemBytes(c, w.op), qd) && w.ret < q.call {
						return fmt.Errorf("goroutine %d op %d: %s(%x) started after goroutine %d's insertion of the same item had returned, yet reported absent; program %s",
							q.g, q.i, q.op.Op, qd, w.g, progString(c))
					}
				}
			}
		}
		if c.Linear {
			res := checkLinearizable(c, inputs, events)
			switch res {
			case porcupine.Ok:
				o.Class("C20:linearizable")
			case porcupine.Unknown:
				o.Class("C20:linearizability-budget-exhausted(inconclusive)")
			default:
				return fmt.Errorf("observed history is not linearizable w.r.t. the sequential BIP37 filter model; program %s; history %s", progString(c), historyString(all))
			}
		}
	}
	if overlaps > 0 {
		o.Class("C20:overlapping-calls-observed")
	}
	if hasReload {
		o.Class("C20:with-reload-or-unload")
	}
	if hasTx {
		o.Class("C20:with-matchtx")
	}
	return nil
}

func progString(c c20Case) string {
	js, _ := json.Marshal(c.Progs)
	if len(js) > 700 {
		js = append(js[:700], "..."...)
	}
	return string(js)
}

func historyString(all []c20Event) string {
	var b bytes.Buffer
	for _, e := range all {
		fmt.Fprintf(&b, "[g%d#%d %s(%d) %d..%d -> %v] ", e.g, e.i, e.op.Op, e.op.Item, e.call, e.ret, e.out)
		if b.Len() > 1500 {
			b.WriteString("...")
			break
		}
	}
	return b.String()
}

func checkLinearizable(c c20Case, inputs [][]c20Input, events [][]c20Event) porcupine.CheckResult {
	type outT struct {
		out, valid bool
	}
	model := porcupine.Model{
		Init: func() interface{} {
			m := newRefBloom(c.Len, c.K, c.Tweak, c.Flags)
			for i := 0; i < c.Preload && i < len(c.Items); i++ {
				m.add(c.Items[i])
			}
			return fromRef(m)
		},
		Step: func(state, input, output interface{}) (bool, interface{}) {
			s := state.(bloomState)
			in := input.(c20Input)
			want, has, ns := stepModel(s, in, c.Tweak)
			o := output.(outT)
			if has && o.valid && want != o.out {
				return false, s
			}
			return true, ns
		},
		Equal: func(a, b interface{}) bool { return a.(bloomState) == b.(bloomState) },
	}
	var ops []porcupine.Operation
	for g := range events {
		for i, e := range events[g] {
			ops = append(ops, porcupine.Operation{ClientId: g, Input: inputs[g][i], Call: e.call - 1, Output: outT{e.out, e.outValid}, Return: e.ret + 1})
		}
	}
	return porcupine.CheckOperationsTimeout(model, ops, 2*time.Second)
}

func genC20(t *rapid.T) c20Case {
	c := c20Case{Len: rapid.SampledFrom([]int{8, 9, 10, 11, 13, 16, 23, 31, 32, 33, 47, 63, 64, 1, 2, 3, 5, 7}).Draw(t, "len"), K: uint32(rapid.IntRange(1, 5).Draw(t, "k")),
		Tweak: rapid.Uint32().Draw(t, "tweak"), Flags: byte(rapid.IntRange(0, 2).Draw(t, "flags"))}
	c.Txs = genC10(t)
	if len(c.Txs.Txs) > 4 {
		c.Txs.Txs = c.Txs.Txs[:4]
	}
	for i := range c.Txs.Txs { // C10's 65536-output transactions are for C10; here every operation is repeated thousands of times
		if c.Txs.Txs[i].PadOuts > 300 {
			c.Txs.Txs[i].PadOuts = 300
		}
	}
	if rapid.IntRange(0, 3).Draw(t, "manyouts") == 0 {
		// one transaction with dozens of outputs, most of which carry watched items
		big := c10Tx{LockTime: 99, Ins: []c10In{{Src: -3, Out: 7, Script: scriptSpec{Cls: "empty"}}}}
		for i := rapid.SampledFrom([]int{47, 48, 49, 64, 130}).Draw(t, "nouts"); i > 0; i-- {
			big.Outs = append(big.Outs, scriptSpec{Cls: []string{"pushes", "p2pk", "p2pkh", "multisig"}[i%4], Items: []int{i % 3, (i + 1) % 3}, Enc: []int{0, 0}, M: i})
		}
		c.Txs.Txs = append(c.Txs.Txs[:len(c.Txs.Txs)-1:len(c.Txs.Txs)-1], big)
	}
	// the items inserted / queried are the pushes the transactions carry, so MatchTxAndUpdate
	// really matches outputs and (flags All / P2PubkeyOnly) really writes to the filter
	for _, it := range c.Txs.Pool {
		if len(it) > 0 {
			c.Items = append(c.Items, it)
		}
	}
	if rapid.IntRange(0, 3).Draw(t, "flagsall") != 0 {
		c.Flags = 1
	}
	c.Preload = rapid.IntRange(0, 3).Draw(t, "preload")
	c.Linear = rapid.IntRange(0, 2).Draw(t, "linear") == 0
	var g, maxOps int
	if c.Linear {
		g, maxOps = rapid.IntRange(2, 4).Draw(t, "g"), 6
	} else {
		g, maxOps = rapid.SampledFrom([]int{2, 4, 8, 16, 32}).Draw(t, "g"), 40
	}
	withReload := rapid.IntRange(0, 2).Draw(t, "reload") == 0
	if !c.Linear && rapid.IntRange(0, 3).Draw(t, "hotcold") == 0 {
		// family: several goroutines match transactions while one keeps swapping a pre-filled ("hot") and an
		// empty ("cold") message in and out; no insertions at all
		c.Flags = 1
		if c.Preload == 0 {
			c.Preload = 2
		}
		if rapid.Bool().Draw(t, "hcp2pk") {
			// the pay-to-pubkey-only update rule: transactions whose outputs pay to / are multisig over the watched
			// keys (pool items 0 and 1, which are the first two preloaded items), next to outputs of other kinds
			c.Flags = 2
			c.Preload = 2
			c.Txs.Txs = nil
			for i := 0; i < 3; i++ {
				c.Txs.Txs = append(c.Txs.Txs, c10Tx{LockTime: uint32(i), Ins: []c10In{{Src: -1 - i, Out: uint32(i), Script: scriptSpec{Cls: "empty"}}},
					Outs: []scriptSpec{{Cls: "p2pk", Items: []int{i % 2}}, {Cls: "multisig", Items: []int{0, 1}, M: i}, {Cls: "p2pkh", Items: []int{2}}, {Cls: "p2pk", Items: []int{(i + 1) % 2}}}})
			}
		}
		g = rapid.SampledFrom([]int{3, 5, 9}).Draw(t, "hcg")
		for i := 0; i < g-1; i++ {
			var prog []c20Op
			for j := rapid.IntRange(20, 40).Draw(t, "hcn"); j > 0; j-- {
				op := c20Op{Op: "matchtx", Item: rapid.IntRange(0, 5).Draw(t, "item")}
				if rapid.IntRange(0, 5).Draw(t, "q") == 0 {
					op.Op = "matches"
				}
				prog = append(prog, op)
			}
			c.Progs = append(c.Progs, prog)
		}
		var rl []c20Op
		for j := 0; j < 40; j++ {
			rl = append(rl, c20Op{Op: "reload", Len: c.Len, K: c.K, Hot: j%2 == 1})
		}
		c.Progs = append(c.Progs, rl)
		c.Reps = pick(10, 40)
		return c
	}
	if !c.Linear && rapid.IntRange(0, 5).Draw(t, "storm") == 0 {
		// family: nothing but load-state changes and load-state queries, racing each other
		g = rapid.SampledFrom([]int{2, 3, 4}).Draw(t, "stg")
		for i := 0; i < g; i++ {
			var prog []c20Op
			for j := rapid.IntRange(20, 40).Draw(t, "stn"); j > 0; j-- {
				switch rapid.IntRange(0, 3).Draw(t, "stop") {
				case 0:
					prog = append(prog, c20Op{Op: "reload", Len: c.Len, K: c.K})
				case 1:
					prog = append(prog, c20Op{Op: "unload"})
				case 2:
					prog = append(prog, c20Op{Op: "isloaded"})
				default:
					prog = append(prog, c20Op{Op: "msg"})
				}
			}
			c.Progs = append(c.Progs, prog)
		}
		c.Reps = pick(200, 400)
		return c
	}
	for i := 0; i < g; i++ {
		var prog []c20Op
		n := rapid.IntRange(3, maxOps).Draw(t, "nops")
		for j := 0; j < n; j++ {
			op := c20Op{Item: rapid.IntRange(0, 5).Draw(t, "item"), Index: uint32(rapid.IntRange(0, 1).Draw(t, "idx"))}
			r := rapid.IntRange(0, 19).Draw(t, "op")
			switch {
			case r < 5:
				op.Op = "add"
			case r < 6:
				op.Op = "addhash"
			case r < 8:
				op.Op = "addoutpoint"
			case r < 12:
				op.Op = "matches"
			case r < 14:
				op.Op = "matchesoutpoint"
			case r < 16:
				op.Op = "matchtx"
				if !c.Linear && len(c.Txs.Txs) > 0 && rapid.IntRange(0, 2).Draw(t, "scan") == 0 {
					op.Op = "scan"
				}
			case r < 17:
				op.Op = "msg"
			case r < 18:
				op.Op = "isloaded"
			case r < 19 && withReload:
				op.Op, op.Len, op.K = "reload", rapid.IntRange(8, 64).Draw(t, "rlen"), uint32(rapid.IntRange(1, 5).Draw(t, "rk"))
				op.Hot = rapid.Bool().Draw(t, "hot")
			case withReload:
				op.Op = "unload"
			default:
				op.Op = "matches"
			}
			prog = append(prog, op)
		}
		c.Progs = append(c.Progs, prog)
	}
	c.Reps = pick(10, 40)
	return c
}

var kC20 = register(&Kind[c20Case]{Prop: "C20", Name: "program", Gen: genC20, Eval: evalC20})

// c20Recover turns a panic inside a worker goroutine into a value for c20Join.  (A panic while the filter's
// lock is held leaves the other workers blocked for good, so the join cannot simply wait for everybody.)
func c20Recover(ch chan<- error) {
	if r := recover(); r != nil {
		st := string(debug.Stack())
		err := fmt.Errorf("panic in a goroutine using the filter: %v\n%s", r, trimStack(st))
		if !strings.Contains(st, "github.com/gcash/bchutil") && !strings.Contains(st, "/repo/") {
			err = hbug("panic in harness goroutine: %v\n%s", r, trimStack(st))
		}
		select {
		case ch <- err:
		default:
		}
	}
}

// c20Join waits for all workers, or for the first panic among them.
func c20Join(wg *sync.WaitGroup, panicCh <-chan error, prog string) error {
	done := make(chan struct{})
	go func() { wg.Wait(); close(done) }()
	select {
	case <-done:
		select {
		case err := <-panicCh:
			return fmt.Errorf("%w; program %s", err, prog)
		default:
			return nil
		}
	case err := <-panicCh:
		return fmt.Errorf("%w; program %s", err, prog)
	}
}

// c20Progress is bumped by every worker after every filter call that returned.
var c20Progress atomic.Int64

// c20Watchdog: filter calls that never return (a lock taken twice, a lock never released) cannot be judged
// after the fact.  A guarded section is declared hung when NO filter call at all has returned for the given
// number of seconds - slowness (a loaded machine, long programs, the race detector) keeps making progress and
// is not a hang.  The process then reports the hang for the case saved in current-case.json and exits; the
// driver turns that into a violation whose replay is that case.  The returned function disarms the watchdog.
func c20Watchdog(what string, seconds int) func() {
	stop := make(chan struct{})
	go func() {
		last, since := c20Progress.Load(), time.Now()
		tick := time.NewTicker(2 * time.Second)
		defer tick.Stop()
		for {
			select {
			case <-stop:
				return
			case <-tick.C:
			}
			if now := c20Progress.Load(); now != last {
				last, since = now, time.Now()
				continue
			}
			if time.Since(since) < time.Duration(seconds)*time.Second {
				continue
			}
			msg := fmt.Sprintf("%s: no filter call has returned for %d s (deadlock: a lock taken twice or never released)", what, seconds)
			buf := make([]byte, 1<<16)
			buf = buf[:runtime.Stack(buf, true)]
			var frames []string
			for _, l := range strings.Split(string(buf), "\n") {
				if strings.Contains(l, "bchutil/bloom.") || strings.Contains(l, "bchutil/gcs.") {
					frames = append(frames, strings.TrimSpace(l))
				}
			}
			if len(frames) > 12 {
				frames = frames[:12]
			}
			if outDir != "" {
				os.WriteFile(filepath.Join(outDir, "hang.txt"), []byte(msg+"; blocked in: "+strings.Join(frames, " | ")), 0o644)
			}
			fmt.Printf("HANG property=C20 %s\n", msg)
			os.Exit(3)
		}
	}()
	return func() { close(stop) }
}

// ---- kind: lockstep rounds ----------------------------------------------------------------------
// Load-state bugs show as a disagreement between what IsLoaded says and what is loaded, and only when
// two state changes overlap within a few dozen nanoseconds.  Instead of starting goroutines per sample,
// G workers stay alive and run in rounds: a spinning barrier releases them together, each performs ONE
// operation, and in the quiet state after the round the views are compared.  One round costs about a
// microsecond, so a case samples tens of thousands of overlaps.

type c20Lock struct {
	Patterns [][]string `json:"patterns"` // per worker: its operations, cycled; reload | unload | isloaded | add | matches
	Rounds   int        `json:"rounds"`
	Len      int        `json:"len"`
	K        uint32     `json:"k"`
	// Preset: every message a worker loads already contains the item (a peer re-sending its filter); a reader
	// then has no moment at which the item may be absent, unless somebody unloads
	Preset bool `json:"preset,omitempty"`
}

func evalC20Lock(c c20Lock, o *Obs) error {
	g := len(c.Patterns)
	if g < 2 || g > 8 || c.Rounds < 1 || c.Rounds > 2000000 || c.Len < 1 || c.Len > 4096 || c.K > 50 {
		return hbug("bad lockstep case")
	}
	for _, p := range c.Patterns {
		if len(p) == 0 {
			return hbug("empty pattern")
		}
	}
	if outDir != "" {
		js, _ := json.Marshal(map[string]any{"property": "C20", "kind": "lockstep", "case": c})
		os.WriteFile(filepath.Join(outDir, "current-case.json"), js, 0o644)
	}
	if os.Getenv("VERIF_REPLAY") != "" && c.Rounds < 400000 {
		c.Rounds = 400000
	}
	o.NT()
	o.Class("C20:lockstep-rounds")
	defer c20Watchdog("lockstep rounds", 90)()
	f := bloom.LoadFilter(nil)
	item := []byte("lockstep item")
	var round, arrived atomic.Int64
	var stop atomic.Bool
	msgs := make([]*wire.MsgFilterLoad, g) // the message worker i loaded in the current round (nil if it did not)
	obs := make([]int8, g)                 // what worker i's IsLoaded / Matches call of the current round returned: 0 none, 1 true, 2 false
	see := func(v bool) int8 {
		if v {
			return 1
		}
		return 2
	}
	panicCh := make(chan error, 16)
	var wg sync.WaitGroup
	for w := 0; w < g; w++ {
		w := w
		wg.Add(1)
		go func() {
			defer wg.Done()
			defer c20Recover(panicCh)
			for r := int64(1); ; r++ {
				for spins := 0; round.Load() < r; spins++ {
					if stop.Load() {
						return
					}
					if spins%16 == 15 {
						runtime.Gosched()
					}
				}
				msgs[w] = nil
				obs[w] = 0
				switch c.Patterns[w][int(r)%len(c.Patterns[w])] {
				case "reload":
					m := wire.NewMsgFilterLoad(make([]byte, c.Len), c.K, uint32(r), wire.BloomUpdateAll)
					if c.Preset {
						tmp := bloom.LoadFilter(m)
						tmp.Add(item)
					}
					msgs[w] = m
					f.Reload(m)
				case "reloadsame":
					// the message the filter holds is handed back to it (a peer object re-initialised from its own state)
					if m := f.MsgFilterLoad(); m != nil {
						msgs[w] = m
						f.Reload(m)
					}
				case "unload":
					f.Unload()
				case "isloaded":
					obs[w] = see(f.IsLoaded())
				case "add":
					f.Add(item)
				case "matches":
					obs[w] = see(f.Matches(item))
				}
				c20Progress.Add(1)
				arrived.Add(1)
			}
		}()
	}
	var failure error
	// A loaded machine stretches a round from a microsecond to milliseconds (a descheduled worker keeps the
	// others spinning); the rounds are therefore also bounded by time.  Fewer rounds = less coverage, not a verdict.
	budget := time.Duration(pick(1500, 5000)) * time.Millisecond
	t0 := time.Now()
	done := int64(0)
	prevLoaded, prevHas := false, false // the quiet state the round starts from
	var prevMsg *wire.MsgFilterLoad     // ... and the message that was loaded then, with a copy of its bits
	var prevBits []byte
	for r := int64(1); r <= int64(c.Rounds); r++ {
		if r%256 == 0 && os.Getenv("VERIF_REPLAY") == "" && time.Since(t0) > budget {
			break
		}
		done = r
		arrived.Store(0)
		round.Store(r)
		for spins := 0; arrived.Load() < int64(g) && failure == nil; spins++ {
			if spins%64 == 63 {
				runtime.Gosched()
				select {
				case err := <-panicCh: // a worker died (possibly holding the filter's lock: the others may never return)
					failure = fmt.Errorf("%w; lockstep round %d (%s)", err, r, c20RoundOps(c, r))
				default:
				}
			}
		}
		if failure != nil {
			stop.Store(true)
			return failure
		}
		// quiet state: every worker has returned from its call of this round
		loaded, msg := f.IsLoaded(), f.MsgFilterLoad()
		if loaded != (msg != nil) {
			failure = fmt.Errorf("after round %d (%s) nothing is running and IsLoaded() = %v while MsgFilterLoad() returns nil=%v: the two views of the load state disagree",
				r, c20RoundOps(c, r), loaded, msg == nil)
			break
		}
		nReload, nUnload, nAdd, nSame := 0, 0, 0, 0
		for w := 0; w < g; w++ {
			switch c.Patterns[w][int(r)%len(c.Patterns[w])] {
			case "reloadsame":
				nSame++
			case "reload":
				nReload++
			case "unload":
				nUnload++
			case "add":
				nAdd++
			}
		}
		has := f.Matches(item)
		// what the readers of this round saw must be what some sequential order of the round's calls shows
		for w := 0; w < g && failure == nil; w++ {
			op := c.Patterns[w][int(r)%len(c.Patterns[w])]
			switch {
			case op == "isloaded" && prevLoaded && nUnload == 0 && obs[w] == 2:
				failure = fmt.Errorf("round %d (%s) began with a filter loaded and nobody unloads, yet IsLoaded() returned false: in no sequential order of these calls is the filter ever unloaded", r, c20RoundOps(c, r))
			case op == "isloaded" && !prevLoaded && nReload == 0 && obs[w] == 1:
				failure = fmt.Errorf("round %d (%s) began with no filter loaded and nobody loads one, yet IsLoaded() returned true", r, c20RoundOps(c, r))
			case op == "matches" && c.Preset && prevHas && nUnload == 0 && obs[w] == 2:
				failure = fmt.Errorf("round %d (%s): the item was in the filter before the round and is in every message loaded during it, nobody unloads, yet Matches returned false", r, c20RoundOps(c, r))
			case op == "matches" && !prevLoaded && nReload == 0 && obs[w] == 1:
				failure = fmt.Errorf("round %d (%s) began with no filter loaded and nobody loads one, yet Matches returned true", r, c20RoundOps(c, r))
			}
		}
		if failure == nil && prevLoaded && nUnload == 0 && nAdd > 0 && (nReload == 0 || c.Preset) && !has {
			failure = fmt.Errorf("after round %d (%s) the item inserted in that round is not in the filter: an insertion was lost", r, c20RoundOps(c, r))
		}
		if failure != nil {
			break
		}
		// a round that only drops the message (no insertion, no load): the dropped message is the caller's again and is
		// what it was when the round began
		if prevMsg != nil && nUnload > 0 && nReload == 0 && nSame == 0 && nAdd == 0 && !bytes.Equal(prevMsg.Filter, prevBits) {
			failure = fmt.Errorf("round %d (%s): the message that was loaded before the round had bits %x, after being dropped it has %x", r, c20RoundOps(c, r), clip(prevBits), clip(prevMsg.Filter))
			break
		}
		prevMsg, prevBits = msg, nil
		if msg != nil {
			prevBits = append([]byte{}, msg.Filter...)
		}
		prevLoaded, prevHas = loaded, has
		if nReload > 0 && nUnload == 0 {
			mine := false
			for _, m := range msgs {
				if m != nil && msg != nil && m.Tweak == msg.Tweak {
					mine = true
				}
			}
			if !mine {
				failure = fmt.Errorf("after round %d (%s) the filter holds none of the messages loaded in that round (loaded=%v)", r, c20RoundOps(c, r), loaded)
				break
			}
		}
		if nUnload > 0 && nReload == 0 && nSame == 0 && loaded {
			failure = fmt.Errorf("after round %d (%s) a filter is still loaded", r, c20RoundOps(c, r))
			break
		}
	}
	stop.Store(true)
	wg.Wait()
	switch {
	case done >= int64(c.Rounds):
		o.Class("C20:lockstep-all-rounds-done")
	case done >= 2000:
		o.Class("C20:lockstep-stopped-by-time-budget(>=2000 rounds)")
	default:
		o.Class("C20:lockstep-stopped-by-time-budget(<2000 rounds)")
	}
	return failure
}

func c20RoundOps(c c20Lock, r int64) string {
	var ops []string
	for w := range c.Patterns {
		ops = append(ops, c.Patterns[w][int(r)%len(c.Patterns[w])])
	}
	return strings.Join(ops, " || ")
}

var kC20Lock = register(&Kind[c20Lock]{Prop: "C20", Name: "lockstep", Eval: evalC20Lock,
	Gen: func(t *rapid.T) c20Lock {
		c := c20Lock{Rounds: pick(30000, 400000), Len: rapid.IntRange(1, 64).Draw(t, "len"), K: uint32(rapid.IntRange(1, 5).Draw(t, "k")), Preset: rapid.Bool().Draw(t, "preset")}
		g := rapid.SampledFrom([]int{2, 2, 3, 4}).Draw(t, "g")
		for w := 0; w < g; w++ {
			var p []string
			for i := rapid.IntRange(1, 7).Draw(t, "plen"); i > 0; i-- {
				p = append(p, rapid.SampledFrom([]string{"reload", "reload", "unload", "unload", "isloaded", "add", "add", "matches", "reloadsame"}).Draw(t, "op"))
			}
			c.Patterns = append(c.Patterns, p)
		}
		return c
	}})

// ---- GCS: immutable, concurrent queries ------------------------------------------------------

type c20GCS struct {
	D     gcsData `json:"filter"`
	G     int     `json:"goroutines"`
	Fresh int     `json:"fresh"` // 0: query the warmed filter; 1: a freshly built one; 2: one re-parsed from NBytes
}

func evalC20GCS(c c20GCS, o *Obs) error {
	items := c.D.items()
	key := c.D.key()
	f, err := gcs.BuildGCSFilter(c.D.P, c.D.M, key, items)
	if err != nil {
		return fmt.Errorf("BuildGCSFilter failed: %v", err)
	}
	before, _ := f.NBytes()
	var probes [][]byte
	for i := 0; i < 12; i++ {
		if len(items) > 0 {
			probes = append(probes, items[(i*31)%len(items)])
		}
		probes = append(probes, derivedItem(c.D.Seed+1, i))
	}
	type ans struct{ m, a, z, h bool }
	seq := make([]ans, len(probes))
	for i, p := range probes {
		seq[i].m, _ = f.Match(key, p)
		seq[i].a, _ = f.MatchAny(key, [][]byte{p, derivedItem(c.D.Seed+3, i)})
		seq[i].z, _ = f.ZipMatchAny(key, [][]byte{p})
		seq[i].h, _ = f.HashMatchAny(key, [][]byte{p})
	}
	// the concurrent phase runs on a filter object that has never been queried (a
	// lazily built, unsynchronised cache would only show on first use): rebuilt from
	// the data or re-parsed from the serialisation
	if c.Fresh == 1 {
		if f, err = gcs.BuildGCSFilter(c.D.P, c.D.M, key, items); err != nil {
			return fmt.Errorf("BuildGCSFilter failed: %v", err)
		}
		o.Class("C20:gcs-fresh-built-filter")
	} else if c.Fresh == 2 {
		if f, err = gcs.FromNBytes(c.D.P, c.D.M, before); err != nil {
			return fmt.Errorf("FromNBytes failed: %v", err)
		}
		o.Class("C20:gcs-fresh-parsed-filter")
	} else if c.Fresh == 3 {
		// a parsed filter that declares more elements than its data holds: still immutable
		raw, _ := f.Bytes()
		declared := uint32(len(raw)*8 + 1000)
		mk := func() (*gcs.Filter, error) { return gcs.FromBytes(declared, c.D.P, c.D.M, raw) }
		g1, err := mk()
		if err != nil {
			return fmt.Errorf("FromBytes failed: %v", err)
		}
		for i, p := range probes { // sequential answers of this shape, on an object of its own
			seq[i].m, _ = g1.Match(key, p)
			seq[i].a, _ = g1.MatchAny(key, [][]byte{p, derivedItem(c.D.Seed+3, i)})
			seq[i].z, _ = g1.ZipMatchAny(key, [][]byte{p})
			seq[i].h, _ = g1.HashMatchAny(key, [][]byte{p})
		}
		if g1.N() != declared {
			return fmt.Errorf("a filter parsed with N=%d reports N()=%d after being queried (queries must not modify the filter)", declared, g1.N())
		}
		if f, err = mk(); err != nil {
			return fmt.Errorf("FromBytes failed: %v", err)
		}
		before, _ = f.NBytes()
		o.Class("C20:gcs-parsed-filter-with-inflated-N")
	}
	if outDir != "" {
		js, _ := json.Marshal(map[string]any{"property": "C20", "kind": "gcs", "case": c})
		os.WriteFile(filepath.Join(outDir, "current-case.json"), js, 0o644)
	}
	o.NT()
	o.Class("C20:gcs-concurrent-queries")
	got := make([][]ans, c.G)
	start := make(chan struct{})
	var wg sync.WaitGroup
	panicCh := make(chan error, 64)
	// one watch list shared by all goroutines (a query is an argument: nobody writes to it), with an empty item in it
	shared := [][]byte{probes[0], {}, derivedItem(c.D.Seed+5, 1), probes[len(probes)-1]}
	sharedCopy := make([][]byte, len(shared))
	for i := range shared {
		sharedCopy[i] = append([]byte{}, shared[i]...)
	}
	// ... and a long one (hundreds of items, a few members among them): what a library does with a long query -
	// split it, hand parts to helpers - is its own business as long as it stays free of races
	var long [][]byte
	for i := 0; i < 300; i++ {
		long = append(long, derivedItem(c.D.Seed+11, i))
		if i%100 == 50 && len(items) > 0 {
			long = append(long, items[(i*7)%len(items)])
		}
	}
	for g := 0; g < c.G; g++ {
		g := g
		got[g] = make([]ans, len(probes))
		wg.Add(1)
		go func() {
			defer wg.Done()
			defer c20Recover(panicCh)
			<-start
			for k := range probes {
				i := (k + g) % len(probes)
				p := probes[i]
				if k%6 == 0 {
					f.MatchAny(key, long)
					f.ZipMatchAny(key, long)
					f.HashMatchAny(key, long)
				}
				f.MatchAny(key, shared)
				f.ZipMatchAny(key, shared)
				f.HashMatchAny(key, shared)
				got[g][i].m, _ = f.Match(key, p)
				got[g][i].a, _ = f.MatchAny(key, [][]byte{p, derivedItem(c.D.Seed+3, i)})
				got[g][i].z, _ = f.ZipMatchAny(key, [][]byte{p})
				got[g][i].h, _ = f.HashMatchAny(key, [][]byte{p})
				f.N()
				f.P()
				f.NBytes()
			}
		}()
	}
	close(start)
	if err := c20Join(&wg, panicCh, "concurrent GCS queries"); err != nil {
		return err
	}
	for i := range shared {
		if !bytes.Equal(shared[i], sharedCopy[i]) {
			return fmt.Errorf("the query list shared by the goroutines was modified by the queries: item %d is %x, was %x", i, shared[i], sharedCopy[i])
		}
	}
	for g := range got {
		for i := range probes {
			if got[g][i] != seq[i] {
				return fmt.Errorf("goroutine %d: answers for probe %x under concurrency %v differ from the sequential answers %v", g, probes[i], got[g][i], seq[i])
			}
		}
	}
	if after, _ := f.NBytes(); !bytes.Equal(before, after) {
		return fmt.Errorf("filter bytes changed under concurrent queries")
	}
	return nil
}

var kC20GCS = register(&Kind[c20GCS]{
	Prop: "C20", Name: "gcs",
	Gen: func(t *rapid.T) c20GCS {
		d := genGCSData(t, 300)
		if d.M == 0 {
			d.M = 1
		}
		return c20GCS{D: d, G: rapid.SampledFrom([]int{2, 8, 32}).Draw(t, "g"), Fresh: rapid.IntRange(0, 3).Draw(t, "fresh")}
	},
	Eval: evalC20GCS,
})

func TestC20(t *testing.T) {
	propTest(t, "C20", func(ev *Ev) {
		ev.Rule("generated concurrent programs: 2..32 goroutines each with 3..40 operations from {IsLoaded, Reload(fresh message), Unload, "+
			"Add, AddHash, AddOutPoint, Matches, MatchesOutPoint, MatchTxAndUpdate, MsgFilterLoad} on one shared filter (8..64 bytes, "+
			"k 1..5, small item alphabet so goroutines touch the same bits), each executed 10 (quick) / 40 (thorough) times with all "+
			"goroutines released by one channel close and joined by one WaitGroup and no other harness synchronisation. Oracles: "+
			"(1) the Go race detector (binary built with -race, halt on first report, the program being run is saved for "+
			"attribution); (2) for a third of the programs (<=4 goroutines x <=6 ops) the recorded history (intervals widened by 1 ns) "+
			"must be linearizable w.r.t. the sequential BIP37 model (porcupine v1.3.0, 2 s budget, exhausted budget = inconclusive); "+
			"(3) without Reload/Unload: every inserted item matches after the join and the bit array equals the OR of all insertions; "+
			"(4) a membership test invoked after an insertion of the same item returned reports it present. GCS: one built filter "+
			"queried by 2..32 goroutines with all four strategies must give the sequential answers and keep its bytes. Non-trivial "+
			"= >=2 goroutines with at least one writer and another operation.",
			"only interleavings that occur in the executed repetitions are explored; the race detector reports conflicting accesses unordered by happens-before in the observed run",
			"the static part of the statement (all paths through every exported method) is not decided by this technique")
		refSelfBloom(ev)
		if len(ev.harnessErrors) > 0 {
			return
		}
		if !raceEnabled {
			ev.HarnessError("C20 must run in the -race build")
			return
		}
		kC20.Run(t, ev, perShard(pick(300, 12000)))
		kC20GCS.Run(t, ev, perShard(pick(60, 6000)))
		if shard == 0 {
			// one large filter (past 2^14 elements) queried for the first time by all goroutines at once
			kC20GCS.One(ev, c20GCS{D: gcsData{Key: HexBytes(bytes.Repeat([]byte{0x5e}, 16)), P: 19, M: 784931, N: 20000, Seed: uint32(seedEnv) + 31}, G: 8, Fresh: 1})
		}
		kC20Lock.Run(t, ev, perShard(pick(24, 400)))
		ev.requireClasses("C20:overlapping-calls-observed", "C20:linearizable", "C20:with-reload-or-unload", "C20:with-matchtx",
			"C20:goroutines=32", "C20:gcs-concurrent-queries", "C20:cold-message-invariant-checked")
	})
}
