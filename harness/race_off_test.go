//go:build !race

package harness

const raceEnabled = false
