package harness

// C15 Extended keys are independent values and zeroing really erases them.

import (
	"bytes"
	"encoding/binary"
	"fmt"
	"math/big"
	"reflect"
	"runtime"
	"testing"
	"time"
	"unsafe"

	"github.com/gcash/bchutil/hdkeychain"
	"pgregory.net/rapid"
)

type c15Op struct {
	Op   string   `json:"op"` // newmaster fromstring newext child neuter setnet zero ecpub ecpriv address string
	A    int      `json:"a,omitempty"`
	I    uint32   `json:"i,omitempty"`
	Net  int      `json:"net,omitempty"`
	Seed HexBytes `json:"seed,omitempty"`
}

type c15Case struct {
	Ops []c15Op `json:"ops"`
}

type c15Entry struct {
	k      *hdkeychain.ExtendedKey
	r      *refKey // model: what this key must look like, determined by how it was obtained
	zeroed bool
	origin string
	rel    []int // related entries (parent, child, neutered twin, re-parsed copy)
}

// privateBuf reads an unexported []byte field of the key.
func privateBuf(k *hdkeychain.ExtendedKey, name string) ([]byte, error) {
	v := reflect.ValueOf(k).Elem().FieldByName(name)
	if !v.IsValid() || v.Kind() != reflect.Slice || v.Type().Elem().Kind() != reflect.Uint8 {
		return nil, hbug("hdkeychain.ExtendedKey has no []byte field %q (renamed?)", name)
	}
	return *(*[]byte)(unsafe.Pointer(v.UnsafeAddr())), nil
}

var c15Fields = []string{"key", "pubKey", "chainCode", "parentFP"}

func allZero(b []byte) bool {
	for _, x := range b {
		if x != 0 {
			return false
		}
	}
	return true
}

// observe checks one live key against its model.  deep also derives children.
func c15Observe(e *c15Entry, idx int, deep bool, when string) error {
	where := fmt.Sprintf("key #%d (%s) %s", idx, e.origin, when)
	if got, want := e.k.String(), e.r.String(); got != want {
		return fmt.Errorf("%s: String() = %s, but this key was obtained as %s", where, got, want)
	}
	if e.k.IsPrivate() != (e.r.Priv != nil) || e.k.Depth() != e.r.Depth ||
		e.k.ParentFingerprint() != binary.BigEndian.Uint32(e.r.ParentFP[:]) {
		return fmt.Errorf("%s: IsPrivate/Depth/ParentFingerprint changed", where)
	}
	if !deep {
		return nil
	}
	pub, err := e.k.ECPubKey()
	if err != nil || !bytes.Equal(pub.SerializeCompressed(), e.r.pubBytes()) {
		return fmt.Errorf("%s: ECPubKey() = %v (err %v), want %x", where, pub, err, e.r.pubBytes())
	}
	pub.Y.Neg(pub.Y) // the point handed out is the caller's: what is done to it shows in no later answer of the key
	pub.X.SetInt64(1)
	if e.r.Priv != nil {
		priv, err := e.k.ECPrivKey()
		if err != nil || priv.D.Cmp(e.r.Priv) != 0 {
			return fmt.Errorf("%s: ECPrivKey() changed (err %v)", where, err)
		}
	}
	a, err := e.k.Address(nets[0].Params)
	if err != nil || a.EncodeAddress() != refCashEncode(nets[0].Params.CashAddressPrefix, 0, hash160(e.r.pubBytes())) {
		return fmt.Errorf("%s: Address() changed (err %v)", where, err)
	}
	for _, i := range []uint32{0, 1, 0x80000000} {
		ck, err := e.k.Child(i)
		cr, rerr := e.r.child(i)
		if rerr == errRefBadChild {
			continue
		}
		if (err == nil) != (rerr == nil) {
			return fmt.Errorf("%s: Child(%d) err=%v, model err=%v", where, i, err, rerr)
		}
		if err == nil && ck.String() != cr.String() {
			return fmt.Errorf("%s: Child(%d) = %s, model %s", where, i, ck.String(), cr.String())
		}
	}
	return nil
}

// c15Guarded is a caller-owned buffer whose windows were handed to NewExtendedKey.
type c15Guarded struct {
	buf     []byte
	windows map[string][2]int
	idx     int
}

func (g c15Guarded) check(when string) error {
	in := func(i int) bool {
		for _, w := range g.windows {
			if i >= w[0] && i < w[1] {
				return true
			}
		}
		return false
	}
	for i, b := range g.buf {
		if !in(i) && b != 0xC3 {
			return fmt.Errorf("%s: byte %d of the caller's buffer behind key #%d's fields was overwritten (0x%02x): erasure reaches past the slices the key was given", when, i, g.idx, b)
		}
	}
	return nil
}

func evalC15(c c15Case, o *Obs) error {
	var pool []*c15Entry
	find := func(k *hdkeychain.ExtendedKey) int {
		for i, e := range pool {
			if e.k == k {
				return i
			}
		}
		return -1
	}
	pick := func(a int) int { return ((a % len(pool)) + len(pool)) % len(pool) }
	interesting := false
	wantGC := false
	var guards []c15Guarded
	for step, op := range c.Ops {
		if len(pool) == 0 && op.Op != "newmaster" {
			continue
		}
		if len(pool) >= 10 && (op.Op == "newmaster" || op.Op == "fromstring" || op.Op == "newext" || op.Op == "child" || op.Op == "childz" || op.Op == "childlz" || op.Op == "neuter") {
			continue // pool full: only mutating/observing ops
		}
		when := fmt.Sprintf("after step %d (%s)", step, op.Op)
		deepAll := false
		zeroKey := func(a int) error {
			e := pool[a]
			var bufs [][]byte
			for _, name := range c15Fields {
				b, err := privateBuf(e.k, name)
				if err != nil {
					return err
				}
				bufs = append(bufs, b)
			}
			// the arrays behind the key's slices, beyond their lengths too: a parsed key's fields are windows into one decoded array
			var arrays [][]byte
			for _, name := range append([]string{"version"}, c15Fields...) {
				if b, err := privateBuf(e.k, name); err == nil && cap(b) > 0 {
					arrays = append(arrays, b[:cap(b)])
				}
			}
			// where in those arrays the private key stands before the call (places, not values: a tiny scalar next to a
			// guard byte can look like itself again after its window was cleared)
			var secret []byte
			type place struct{ arr, off int }
			var places []place
			if e.r.Priv != nil && !e.zeroed {
				secret = make([]byte, 32)
				e.r.Priv.FillBytes(secret)
				for ai, arr := range arrays {
					for off := 0; off+32 <= len(arr); off++ {
						if bytes.Equal(arr[off:off+32], secret) {
							places = append(places, place{ai, off})
						}
					}
				}
			}
			e.k.Zero()
			for _, pl := range places {
				if bytes.Equal(arrays[pl.arr][pl.off:pl.off+32], secret) {
					return fmt.Errorf("key #%d (%s): after Zero() the array behind the key's fields still holds its private key %x where it stood before", a, e.origin, secret)
				}
			}
			if adr, err := e.k.Address(nets[0].Params); err == nil && adr.EncodeAddress() == refCashEncode(nets[0].Params.CashAddressPrefix, 0, hash160(e.r.pubBytes())) {
				return fmt.Errorf("key #%d (%s): after Zero() Address() still answers with the key's own address %s", a, e.origin, adr.EncodeAddress())
			}
			for i, b := range bufs {
				if !allZero(b) {
					return fmt.Errorf("key #%d (%s): after Zero() the buffer that held %s still contains %x", a, e.origin, c15Fields[i], b)
				}
			}
			if s := e.k.String(); s != "zeroed extended key" {
				return fmt.Errorf("key #%d: after Zero() String() = %q", a, s)
			}
			if _, err := e.k.ECPrivKey(); err == nil {
				return fmt.Errorf("key #%d: after Zero() ECPrivKey() still succeeds", a)
			}
			if e.k.IsPrivate() {
				return fmt.Errorf("key #%d: after Zero() IsPrivate() is true", a)
			}
			if !e.zeroed {
				o.Class("C15:zero")
				for _, j := range e.rel {
					if !pool[j].zeroed {
						interesting = true
						o.Class("C15:zero-with-live-relative")
					}
				}
			}
			e.zeroed = true
			deepAll = true
			return nil
		}
		switch op.Op {
		case "newmaster":
			if op.Net < 0 || op.Net >= len(nets) {
				return hbug("net")
			}
			k, err := hdkeychain.NewMaster(op.Seed, nets[op.Net].Params)
			r, rerr := refMaster(op.Seed, op.Net)
			if rerr != nil {
				continue
			}
			if err != nil {
				return fmt.Errorf("NewMaster failed: %v", err)
			}
			pool = append(pool, &c15Entry{k: k, r: r, origin: fmt.Sprintf("NewMaster@%d", step)})
		case "fromstring":
			a := pick(op.A)
			src := pool[a]
			k, err := hdkeychain.NewKeyFromString(src.r.String())
			if err != nil {
				return fmt.Errorf("NewKeyFromString(%s) failed: %v", src.r.String(), err)
			}
			if op.I&1 == 1 && !src.zeroed {
				// only a child of the parsed key is kept; the parsed key itself is forgotten (never erased) and collected:
				// the child is a value of its own and stays what it is
				if cr, rerr := src.r.child(1); rerr == nil {
					ck, err := k.Child(1)
					if err != nil {
						return fmt.Errorf("key #%d re-parsed: Child(1) failed: %v", a, err)
					}
					k = nil
					pool = append(pool, &c15Entry{k: ck, r: cr, origin: fmt.Sprintf("NewKeyFromString(#%d).Child(1)@%d, the parsed key forgotten", a, step), rel: []int{a}})
					src.rel = append(src.rel, len(pool)-1)
					wantGC = true
					o.Class("C15:child-of-a-forgotten-parsed-key")
					continue
				}
			}
			cp := *src.r
			pool = append(pool, &c15Entry{k: k, r: &cp, origin: fmt.Sprintf("NewKeyFromString(#%d)@%d", a, step), rel: []int{a}})
			src.rel = append(src.rel, len(pool)-1)
		case "newext":
			a := pick(op.A)
			src := pool[a].r
			if len(op.Seed) == 32 && src.Priv != nil {
				// the copy gets another private scalar (one with extreme machine words): same chain code, own key
				if k := new(big.Int).SetBytes(op.Seed); k.Sign() > 0 && k.Cmp(curveN) < 0 {
					cp := *src
					cp.Priv = k
					cp.X, cp.Y = pubPoint(op.Seed)
					src = &cp
					o.Class("C15:newext-with-a-crafted-scalar")
				}
			}
			if op.I&4 != 0 {
				// an imported key whose parent fingerprint is 00000000 below the root (a legal value, and what some
				// wallets export) ...
				cp2 := *src
				cp2.ParentFP = [4]byte{}
				src = &cp2
				o.Class("C15:newext-zero-fingerprint-below-root")
			}
			if op.I&8 != 0 && src.Depth > 0 {
				// ... or one that says depth 0 and still carries a child number and a parent fingerprint
				cp2 := *src
				cp2.Depth = 0
				src = &cp2
				o.Class("C15:newext-depth-0-with-child-number")
			}
			var keyData []byte
			if src.Priv != nil {
				keyData = pad32(src.Priv)
			} else {
				keyData = src.pubBytes()
			}
			// the four fields are windows of one caller-owned buffer, separated by guard bytes; zeroing this key
			// may clear the windows (they are its key material) but nothing else
			big := make([]byte, 0, 4+len(keyData)+32+4+5*8)
			guard := []byte{0xC3, 0xC3, 0xC3, 0xC3, 0xC3, 0xC3, 0xC3, 0xC3}
			off := map[string][2]int{}
			put := func(name string, b []byte) []byte {
				big = append(big, guard...)
				st := len(big)
				big = append(big, b...)
				off[name] = [2]int{st, len(big)}
				return big[st:len(big)]
			}
			verBytes := src.Version[:]
			fixNet := -1
			if op.I&1 != 0 && op.Net >= 0 && op.Net < len(nets) {
				// the version bytes say the opposite of the private/public flag; SetNet puts that right before anybody looks
				fixNet = op.Net
				verBytes = nets[fixNet].Params.HDPublicKeyID[:]
				if src.Priv == nil {
					verBytes = nets[fixNet].Params.HDPrivateKeyID[:]
				}
				o.Class("C15:newext-version-contradicts-kind-then-setnet")
			}
			ver := put("ver", verBytes)
			keyW := put("key", keyData)
			chain := put("chain", src.Chain[:])
			fp := put("fp", src.ParentFP[:])
			big = append(big, guard...)
			keyData = keyW
			guards = append(guards, c15Guarded{buf: big, windows: off, idx: len(pool)})
			k := hdkeychain.NewExtendedKey(ver, keyData, chain, fp, src.Depth, src.ChildNum, src.Priv != nil)
			if op.I&2 != 0 {
				// another key object over the same caller buffers is made, used and forgotten (never zeroed): when the
				// collector takes it, the buffers - and the key above that lives in them - stay as they are
				func() {
					tmp := hdkeychain.NewExtendedKey(ver, keyData, chain, fp, src.Depth, src.ChildNum, src.Priv != nil)
					_ = tmp.String()
				}()
				wantGC = true
				o.Class("C15:forgotten-key-over-the-same-buffers")
			}
			cp := *src
			if fixNet >= 0 {
				k.SetNet(nets[fixNet].Params)
				cp = *cp.withNet(fixNet)
				deepAll = true
			}
			pool = append(pool, &c15Entry{k: k, r: &cp, origin: fmt.Sprintf("NewExtendedKey(copy of #%d)@%d", a, step), rel: []int{a}})
			pool[a].rel = append(pool[a].rel, len(pool)-1)
		case "child":
			a := pick(op.A)
			if pool[a].zeroed {
				continue
			}
			i := op.I
			if pool[a].r.Priv == nil {
				i &= 0x7fffffff
			}
			k, err := pool[a].k.Child(i)
			r, rerr := pool[a].r.child(i)
			if rerr != nil {
				continue
			}
			if err != nil {
				return fmt.Errorf("key #%d (%s): Child(%d) failed: %v", a, pool[a].origin, i, err)
			}
			pool = append(pool, &c15Entry{k: k, r: r, origin: fmt.Sprintf("#%d.Child(%d)@%d", a, i, step), rel: []int{a}})
			pool[a].rel = append(pool[a].rel, len(pool)-1)
		case "neuter":
			a := pick(op.A)
			if pool[a].zeroed {
				continue
			}
			k, err := pool[a].k.Neuter()
			if err != nil {
				return fmt.Errorf("key #%d: Neuter failed: %v", a, err)
			}
			if j := find(k); j >= 0 {
				if pool[a].r.Priv != nil {
					return fmt.Errorf("Neuter of private key #%d returned an existing object #%d", a, j)
				}
				o.Class("C15:neuter-of-public-returns-same-key")
				continue
			}
			if pool[a].r.Priv == nil {
				return fmt.Errorf("Neuter of public key #%d returned a different object (documented: returns the same key)", a)
			}
			pool = append(pool, &c15Entry{k: k, r: pool[a].r.neuter(), origin: fmt.Sprintf("#%d.Neuter()@%d", a, step), rel: []int{a}})
			pool[a].rel = append(pool[a].rel, len(pool)-1)
		case "setnet":
			a := pick(op.A)
			if op.Net < 0 || op.Net >= len(nets) {
				return hbug("net")
			}
			pool[a].k.SetNet(nets[op.Net].Params)
			if pool[a].zeroed {
				o.Class("C15:setnet-on-zeroed-key") // stays zeroed: the invariant below
				break
			}
			pool[a].r = pool[a].r.withNet(op.Net)
			o.Class("C15:setnet")
			for _, j := range pool[a].rel {
				if !pool[j].zeroed {
					interesting = true
				}
			}
			deepAll = true
		case "zero":
			if err := zeroKey(pick(op.A)); err != nil {
				return err
			}
		case "childz":
			// a child is derived and, before anybody has looked at it, its parent is erased: the child is complete
			a := pick(op.A)
			if pool[a].zeroed {
				continue
			}
			i := op.I
			if pool[a].r.Priv == nil {
				i &= 0x7fffffff
			}
			r, rerr := pool[a].r.child(i)
			if rerr != nil {
				continue
			}
			k, err := pool[a].k.Child(i)
			if err != nil {
				return fmt.Errorf("key #%d (%s): Child(%d) failed: %v", a, pool[a].origin, i, err)
			}
			pool = append(pool, &c15Entry{k: k, r: r, origin: fmt.Sprintf("#%d.Child(%d)@%d, parent zeroed at once", a, i, step), rel: []int{a}})
			pool[a].rel = append(pool[a].rel, len(pool)-1)
			o.Class("C15:child-then-parent-zeroed-unobserved")
			if err := zeroKey(a); err != nil {
				return err
			}
		case "childlz":
			// two children whose private keys begin with a zero byte (about one index in 256), alive at the same time
			a := pick(op.A)
			if pool[a].zeroed || pool[a].r.Priv == nil || len(pool) >= 9 {
				continue
			}
			found := 0
			for i := op.I | 0x80000000; found < 2 && i < (op.I|0x80000000)+4000 && i >= 0x80000000; i++ {
				r, rerr := pool[a].r.child(i)
				if rerr != nil || r.Priv == nil || pad32(r.Priv)[0] != 0 {
					continue
				}
				k, err := pool[a].k.Child(i)
				if err != nil {
					return fmt.Errorf("key #%d (%s): Child(%d) failed: %v", a, pool[a].origin, i, err)
				}
				pool = append(pool, &c15Entry{k: k, r: r, origin: fmt.Sprintf("#%d.Child(%d)@%d (leading zero byte)", a, i, step), rel: []int{a}})
				pool[a].rel = append(pool[a].rel, len(pool)-1)
				found++
			}
			if found == 2 {
				o.Class("C15:two-leading-zero-children")
				interesting = true
			}
			deepAll = true
		case "ecpub":
			a := pick(op.A)
			if !pool[a].zeroed {
				if _, err := pool[a].k.ECPubKey(); err != nil {
					return fmt.Errorf("key #%d: ECPubKey failed: %v", a, err)
				}
			}
		case "ecpriv":
			a := pick(op.A)
			if !pool[a].zeroed && pool[a].r.Priv != nil {
				if _, err := pool[a].k.ECPrivKey(); err != nil {
					return fmt.Errorf("key #%d: ECPrivKey failed: %v", a, err)
				}
			}
		case "address":
			a := pick(op.A)
			if !pool[a].zeroed {
				if _, err := pool[a].k.Address(nets[op.Net%len(nets)].Params); err != nil {
					return fmt.Errorf("key #%d: Address failed: %v", a, err)
				}
			}
		case "string":
			// covered by the invariant below
		default:
			return hbug("unknown op %q", op.Op)
		}
		for i, e := range pool {
			if e.zeroed {
				// once zeroed, always zeroed - whatever is done to this or to other keys afterwards
				if s := e.k.String(); s != "zeroed extended key" {
					return fmt.Errorf("key #%d (%s), zeroed earlier: %s String() = %q", i, e.origin, when, s)
				}
				if _, err := e.k.ECPrivKey(); err == nil || e.k.IsPrivate() {
					return fmt.Errorf("key #%d (%s), zeroed earlier: %s it yields a private key again (ECPrivKey err=%v, IsPrivate=%v)", i, e.origin, when, err, e.k.IsPrivate())
				}
				continue
			}
			if err := c15Observe(e, i, deepAll, when); err != nil {
				return err
			}
		}
		for _, g := range guards {
			if err := g.check(when); err != nil {
				return err
			}
		}
	}
	if wantGC {
		for i := 0; i < 2; i++ {
			runtime.GC()
			time.Sleep(time.Millisecond) // finalizers, if there were any, run on their own goroutine
		}
	}
	for i, e := range pool {
		if e.zeroed {
			// erased is erased for good: nothing (no helper the library may have started) writes key material back later
			for _, name := range c15Fields {
				if b, err := privateBuf(e.k, name); err == nil && !allZero(b) {
					return fmt.Errorf("key #%d (%s): at the end of the history the field %s of this erased key holds %x", i, e.origin, name, b)
				}
			}
		}
		if !e.zeroed {
			if err := c15Observe(e, i, true, "at the end of the history"); err != nil {
				return err
			}
		}
	}
	if interesting {
		o.NT()
	}
	return nil
}

func genC15(t *rapid.T) c15Case {
	var c c15Case
	n := rapid.IntRange(2, 25).Draw(t, "nops")
	c.Ops = append(c.Ops, c15Op{Op: "newmaster", Seed: genBytes(t, "seed", 16, 32), Net: genNet(t)})
	for i := 0; i < n; i++ {
		op := c15Op{A: rapid.IntRange(0, 9).Draw(t, "a")}
		switch rapid.IntRange(0, 22).Draw(t, "op") {
		case 20, 21:
			op.Op, op.I = "childz", genIndex(t)
		case 22:
			op.Op, op.I = "childlz", uint32(rapid.IntRange(0, 1<<20).Draw(t, "lzstart"))
		case 0:
			op.Op, op.Seed, op.Net = "newmaster", genBytes(t, "seed", 16, 32), genNet(t)
		case 1, 2:
			op.Op, op.I = "fromstring", uint32(rapid.IntRange(0, 3).Draw(t, "forget"))
		case 3:
			op.Op, op.I, op.Net = "newext", uint32(rapid.IntRange(0, 3).Draw(t, "newextflags")), genNet(t)
			if rapid.IntRange(0, 3).Draw(t, "imported") == 0 {
				op.I |= uint32(rapid.SampledFrom([]int{4, 8, 12}).Draw(t, "importedshape"))
			}
			if rapid.IntRange(0, 2).Draw(t, "crafted") == 0 {
				op.Seed = genScalar(t, "craftedk")
			}
		case 4, 5, 6:
			op.Op, op.I = "child", genIndex(t)
		case 7, 8, 9, 10:
			op.Op = "neuter"
		case 11, 12:
			op.Op, op.Net = "setnet", genNet(t)
		case 13, 14, 15, 16:
			op.Op = "zero"
		case 17:
			op.Op = "ecpub"
		case 18:
			op.Op = "ecpriv"
		default:
			op.Op, op.Net = "address", genNet(t)
		}
		c.Ops = append(c.Ops, op)
	}
	return c
}

var kC15 = register(&Kind[c15Case]{Prop: "C15", Name: "history", Gen: genC15, Eval: evalC15})

func TestC15(t *testing.T) {
	propTest(t, "C15", func(ev *Ev) {
		ev.Rule("histories (<=26 ops) over a pool of <=10 keys: NewMaster, NewKeyFromString (of a pool key's serialisation), "+
			"NewExtendedKey (fresh buffers), Child(i) (hardened and not), Neuter, SetNet, Zero, ECPubKey/ECPrivKey/Address. Each key "+
			"identity carries a model key (independent BIP32 implementation) fixed by how it was obtained (SetNet replaces the "+
			"version of that identity only). After every step every live key's serialisation, flags, depth and fingerprint must "+
			"equal its model; after every Zero/SetNet and at the end additionally public key, private scalar, address and children "+
			"0 and 1. For Zero, the four private byte-slice fields are captured by reflection before the call and must be all-zero "+
			"afterwards; String() reports the zeroed marker, ECPrivKey fails, IsPrivate is false. Non-trivial = a Zero or SetNet on a "+
			"key while a related key (parent, child, neutered twin, re-parsed copy) is still live and observed afterwards.",
			"reflect+unsafe access to the private fields key/pubKey/chainCode/parentFP of hdkeychain.ExtendedKey (a rename is a harness error)",
			"zeroing of the version bytes is not asserted (they alias chaincfg globals)")
		refSelfBIP32(ev)
		if len(ev.harnessErrors) > 0 {
			return
		}
		// regression: neutered twin survives zeroing of the private key (and vice versa)
		seed := bytes.Repeat([]byte{7}, 16)
		// a key whose private scalar has two leading zero bytes (one child in 65536; found with the reference),
		// derived, re-parsed from its string, neutered: how it was obtained must not matter for what it derives
		if shard == 0 {
			lzSeed := bytes.Repeat([]byte{0x3c}, 32)
			if r, err := refMaster(lzSeed, 0); err == nil {
				pub := r.pubBytes()
				for d := uint32(0); d < 600000; d++ {
					if refChildScalarHasLZ(r, pub, 0x80000000+d, 2) {
						kC15.One(ev, c15Case{Ops: []c15Op{{Op: "newmaster", Seed: lzSeed}, {Op: "child", A: 0, I: 0x80000000 + d}, {Op: "fromstring", A: 1},
							{Op: "neuter", A: 1}, {Op: "child", A: 1, I: 0x80000005}, {Op: "child", A: 2, I: 0x80000005}, {Op: "zero", A: 0}}})
						break
					}
				}
			}
		}
		kC15.One(ev, c15Case{Ops: []c15Op{{Op: "newmaster", Seed: seed}, {Op: "neuter", A: 0}, {Op: "zero", A: 0}}})
		kC15.One(ev, c15Case{Ops: []c15Op{{Op: "newmaster", Seed: seed}, {Op: "neuter", A: 0}, {Op: "zero", A: 1}}})
		kC15.Run(t, ev, perShard(pick(1500, 400000)))
		ev.requireClasses("C15:zero", "C15:zero-with-live-relative", "C15:setnet", "C15:neuter-of-public-returns-same-key")
	})
}
