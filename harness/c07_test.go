package harness

// C07 Base58, Base58Check and bech32 are exact, strict, side-effect-free inverses.

import (
	"bytes"
	"fmt"
	"strings"
	"testing"

	"github.com/gcash/bchutil/base58"
	"github.com/gcash/bchutil/bech32"
	"pgregory.net/rapid"
)

// ---- kind: b58bytes ---------------------------------------------------------------

type c07Bytes struct {
	B     HexBytes `json:"b"`
	Spare int      `json:"spare"`
}

func canaryIntact(backing []byte, orig []byte) bool {
	if !bytes.Equal(backing[:len(orig)], orig) {
		return false
	}
	for _, c := range backing[len(orig):] {
		if c != 0xA5 {
			return false
		}
	}
	return true
}

func evalC07Bytes(c c07Bytes, o *Obs) error {
	arg, backing := withSpareCap(c.B, c.Spare)
	enc := base58.Encode(arg)
	if !canaryIntact(backing, c.B) {
		return fmt.Errorf("base58.Encode modified its argument's backing array: %x", backing)
	}
	want := refB58Encode(c.B)
	if enc != want {
		return fmt.Errorf("base58.Encode(%x) = %q, Base58 definition gives %q", []byte(c.B), enc, want)
	}
	dec := base58.Decode(enc)
	if !bytes.Equal(dec, c.B) {
		return fmt.Errorf("base58.Decode(Encode(%x)) = %x", []byte(c.B), dec)
	}
	for i := range dec { // results belong to the caller: a later call must not see the scribble
		dec[i] ^= 0x5a
	}
	if again := base58.Decode(enc); !bytes.Equal(again, c.B) {
		return fmt.Errorf("base58.Decode(%q) returns %x after the caller modified the slice returned by an earlier call", enc, again)
	}
	if len(c.B) > 0 {
		o.NT()
	}
	lz := 0
	for lz < len(c.B) && c.B[lz] == 0 {
		lz++
	}
	switch {
	case lz == 0:
		o.Class("b58bytes:lz=0")
	case lz == len(c.B):
		o.Class("b58bytes:all-zero")
	default:
		o.Class("b58bytes:lz>0")
	}
	if c.Spare > 0 {
		o.Class("b58bytes:cap>len")
	}
	return nil
}

var kC07Bytes = register(&Kind[c07Bytes]{
	Prop: "C07", Name: "b58bytes",
	Gen: func(t *rapid.T) c07Bytes {
		if rapid.IntRange(0, 2).Draw(t, "structured") == 0 {
			// the number written in base 58 has structure: groups of 5 / 6 / 10 digits that are all '1' (zero), all
			// 'z', one off, or random - the places where limb-wise converters carry, borrow and pad
			return c07Bytes{B: func() []byte { b, _ := refB58Decode(genB58Structured(t, "sb")); return b }(), Spare: rapid.IntRange(0, 8).Draw(t, "spare")}
		}
		return c07Bytes{B: genBytes(t, "b", 0, 512), Spare: rapid.IntRange(0, 40).Draw(t, "spare")}
	},
	Eval: evalC07Bytes,
})

// ---- kind: b58str -----------------------------------------------------------------

type c07Str struct {
	S string `json:"s"`
}

func evalC07Str(c c07Str, o *Obs) error {
	got := base58.Decode(c.S)
	want, ok := refB58Decode(c.S)
	if !ok {
		o.Class("b58str:foreign")
		if len(c.S) > 0 {
			o.NT()
		}
		if len(got) != 0 {
			return fmt.Errorf("base58.Decode(%q) with a foreign character returned %x, want empty", c.S, got)
		}
		return nil
	}
	o.Class("b58str:alphabet")
	if len(c.S) > 0 {
		o.NT()
	}
	if !bytes.Equal(got, want) {
		return fmt.Errorf("base58.Decode(%q) = %x, definition gives %x", c.S, got, want)
	}
	if re := base58.Encode(got); re != c.S {
		return fmt.Errorf("base58.Encode(Decode(%q)) = %q (not a bijection)", c.S, re)
	}
	return nil
}

// genB58Structured draws a Base58 string made of digit groups of one width (5, 6 or 10): each group is all '1',
// all 'z', 'zzz..y', '111..2', a power-of-two limb boundary in base 58, or random; optionally a short ragged head.
func genB58Structured(t *rapid.T, label string) string {
	g := rapid.SampledFrom([]int{5, 5, 6, 10}).Draw(t, label+"_g")
	var sb strings.Builder
	sb.WriteString(rapid.SampledFrom([]string{"", "", "2", "z", "5Q", "zz", "JPwcyD", "7YXq9G"}).Draw(t, label+"_head")) // JPwcyD = 58^5 area, 7YXq9G = 2^32
	if rapid.IntRange(0, 2).Draw(t, label+"_acc") == 0 {
		// a decoder works from the left: after the digits that spell the number A its accumulator IS A.  Let A be made
		// of extreme machine words, then feed further groups: the multiply-and-add on those words is where carries go missing
		words := make([]byte, 4*rapid.IntRange(1, 10).Draw(t, label+"_accwords"))
		fillWords(t, label+"_accw", words)
		sb.Reset()
		sb.WriteString(refB58Encode(words))
	}
	for n := rapid.IntRange(1, 12).Draw(t, label+"_n"); n > 0; n-- {
		switch rapid.IntRange(0, 6).Draw(t, label+"_gv") {
		case 0, 1:
			sb.WriteString(strings.Repeat("1", g))
		case 2, 3:
			sb.WriteString(strings.Repeat("z", g))
		case 4:
			sb.WriteString(strings.Repeat("z", g-1) + "y")
		case 5:
			sb.WriteString(strings.Repeat("1", g-1) + "2")
		default:
			for i := 0; i < g; i++ {
				sb.WriteByte(b58Alphabet[rapid.IntRange(0, 57).Draw(t, label+"_c")])
			}
		}
	}
	return sb.String()
}

func genB58String(t *rapid.T, label string, max int) string {
	if rapid.IntRange(0, 3).Draw(t, label+"_structured") == 0 {
		return genB58Structured(t, label)
	}
	n := rapid.IntRange(0, max).Draw(t, label+"_len")
	ones := 0
	if rapid.IntRange(0, 2).Draw(t, label+"_lead") == 0 {
		ones = rapid.IntRange(0, n).Draw(t, label+"_ones")
	}
	b := make([]byte, n)
	for i := range b {
		if i < ones {
			b[i] = '1'
		} else {
			b[i] = b58Alphabet[rapid.IntRange(0, 57).Draw(t, label+"_c")]
		}
	}
	return string(b)
}

var kC07Str = register(&Kind[c07Str]{
	Prop: "C07", Name: "b58str",
	Gen: func(t *rapid.T) c07Str {
		s := genB58String(t, "s", 80)
		if rapid.IntRange(0, 3).Draw(t, "foreign") == 0 && len(s) > 0 {
			// inject a foreign byte (any value outside the alphabet)
			i := rapid.IntRange(0, len(s)-1).Draw(t, "fi")
			var fc byte
			for {
				fc = rapid.Byte().Draw(t, "fc")
				if strings.IndexByte(b58Alphabet, fc) < 0 {
					break
				}
			}
			s = s[:i] + string([]byte{fc}) + s[i+1:]
		} else if rapid.IntRange(0, 5).Draw(t, "alias") == 0 {
			s = aliasChar(t, s)
		}
		return c07Str{S: s}
	},
	Eval: evalC07Str,
})

// ---- kind: b58check ---------------------------------------------------------------

type c07Check struct {
	Version byte     `json:"version"`
	Payload HexBytes `json:"payload"`
	Spare   int      `json:"spare"`
	// Mut: 0 none; 1 change one checksum byte (Pos in 0..3, Delta 1..255);
	// 2 change one payload/version byte; 3 truncate decoded bytes to TruncLen (<=8)
	// with the checksum recomputed when Recompute.
	Mut       int  `json:"mut"`
	Pos       int  `json:"pos"`
	Delta     byte `json:"delta"`
	TruncLen  int  `json:"trunc_len"`
	Recompute bool `json:"recompute"`
}

func evalC07Check(c c07Check, o *Obs) error {
	arg, backing := withSpareCap(c.Payload, c.Spare)
	enc := base58.CheckEncode(arg, c.Version)
	if !canaryIntact(backing, c.Payload) {
		return fmt.Errorf("base58.CheckEncode modified its argument's backing array")
	}
	if want := refB58CheckEncode(c.Payload, c.Version); enc != want {
		return fmt.Errorf("CheckEncode(%x,%d) = %q, Base58Check definition gives %q", []byte(c.Payload), c.Version, enc, want)
	}
	raw, _ := refB58Decode(enc)
	s := enc
	switch c.Mut {
	case 1:
		d := c.Delta
		if d == 0 {
			d = 1
		}
		raw[len(raw)-4+c.Pos%4] ^= d
		s = refB58Encode(raw)
		o.Class("b58check:cksum-byte-%d-changed", c.Pos%4)
	case 2:
		i := c.Pos % (len(raw) - 4)
		d := c.Delta
		if d == 0 {
			d = 1
		}
		raw[i] ^= d
		s = refB58Encode(raw)
		o.Class("b58check:body-changed")
	case 3:
		n := c.TruncLen
		if n > len(raw) {
			n = len(raw)
		}
		raw = raw[:n]
		if c.Recompute && n >= 4 {
			copy(raw[n-4:], dsha256(raw[:n-4])[:4])
		}
		s = refB58Encode(raw)
		o.Class("b58check:decoded-len=%d", n)
	default:
		o.Class("b58check:unmodified")
	}
	o.NT()
	gotP, gotV, err := base58.CheckDecode(s)
	wantP, wantV, ok := refB58CheckDecode(s)
	if ok != (err == nil) {
		return fmt.Errorf("CheckDecode(%q) (decoded %x): err=%v but reference accept=%v", s, raw, err, ok)
	}
	if ok {
		o.Class("b58check:accepted")
		if !bytes.Equal(gotP, wantP) || gotV != wantV {
			return fmt.Errorf("CheckDecode(%q) = (%x,%d), want (%x,%d)", s, gotP, gotV, wantP, wantV)
		}
	} else {
		o.Class("b58check:rejected")
	}
	if ok {
		for i := range gotP {
			gotP[i] ^= 0x77
		}
		if again, _, err := base58.CheckDecode(s); err != nil || !bytes.Equal(again, wantP) {
			return fmt.Errorf("CheckDecode(%q) returns %x (err %v) after the caller modified an earlier result", s, again, err)
		}
		for i := range gotP {
			gotP[i] ^= 0x77
		}
	}
	if c.Mut == 0 && (!ok || !bytes.Equal(gotP, c.Payload) || gotV != c.Version) {
		return fmt.Errorf("CheckDecode(CheckEncode(%x,%d)) = (%x,%d,%v)", []byte(c.Payload), c.Version, gotP, gotV, err)
	}
	return nil
}

var kC07Check = register(&Kind[c07Check]{
	Prop: "C07", Name: "b58check",
	Gen: func(t *rapid.T) c07Check {
		c := c07Check{
			Version: rapid.Byte().Draw(t, "version"),
			Payload: genBytes(t, "payload", 0, 100),
			Spare:   rapid.IntRange(0, 16).Draw(t, "spare"),
			Mut:     rapid.IntRange(0, 3).Draw(t, "mut"),
		}
		if rapid.IntRange(0, 9).Draw(t, "longpayload") == 0 { // up to what the byte-level kinds use, and the lengths just below it
			c.Payload = genBytesN(t, "payload", rapid.SampledFrom([]int{127, 128, 255, 256, 300, 400, 500, 508, 509, 510, 511, 512}).Draw(t, "longlen"))
		}
		c.Pos = rapid.IntRange(0, 200).Draw(t, "pos")
		c.Delta = rapid.Byte().Draw(t, "delta")
		c.TruncLen = rapid.IntRange(0, 8).Draw(t, "trunc")
		c.Recompute = rapid.Bool().Draw(t, "recompute")
		return c
	},
	Eval: evalC07Check,
})

// ---- kind: bech32enc --------------------------------------------------------------

type c07Bech struct {
	Hrp   string   `json:"hrp"`
	Data  HexBytes `json:"data5"`
	Spare int      `json:"spare"`
}

func genHrp(t *rapid.T, max int) string {
	n := rapid.IntRange(1, max).Draw(t, "hrp_len")
	b := make([]byte, n)
	for i := range b {
		for {
			var c byte
			switch rapid.IntRange(0, 14).Draw(t, "hrp_cls") {
			case 0:
				c = '1'
			case 1:
				c = byte(rapid.IntRange(33, 126).Draw(t, "hrp_any"))
			case 2: // first and last characters of the 32-character rows of ASCII, and of the letters
				c = rapid.SampledFrom([]byte{'!', '?', '@', '[', '^', '_', '`', 'a', 'z', '{', '~', '0', '9'}).Draw(t, "hrp_edge")
			default:
				c = byte(rapid.IntRange('a', 'z').Draw(t, "hrp_az"))
			}
			if c < 'A' || c > 'Z' {
				b[i] = c
				break
			}
		}
	}
	return string(b)
}

func evalC07Bech(c c07Bech, o *Obs) error {
	arg, backing := withSpareCap(c.Data, c.Spare)
	enc, err := bech32.Encode(c.Hrp, arg)
	if !canaryIntact(backing, c.Data) {
		return fmt.Errorf("bech32.Encode(%q, data len %d cap %d) wrote into its argument's backing array: %x",
			c.Hrp, len(c.Data), len(c.Data)+c.Spare, backing)
	}
	if err != nil {
		return fmt.Errorf("bech32.Encode(%q,%x) failed: %v", c.Hrp, []byte(c.Data), err)
	}
	want := refBech32Encode(c.Hrp, c.Data)
	if enc != want {
		return fmt.Errorf("bech32.Encode(%q,%x) = %q, BIP173 gives %q", c.Hrp, []byte(c.Data), enc, want)
	}
	o.NT()
	if c.Spare > 0 {
		o.Class("bech32enc:cap>len")
	} else {
		o.Class("bech32enc:cap=len")
	}
	if strings.Contains(c.Hrp, "1") {
		o.Class("bech32enc:hrp-contains-1")
	}
	if len(enc) == 90 {
		o.Class("bech32enc:len=90")
	}
	for _, s := range []string{enc, asciiUpper(enc)} {
		hrp, data, err := bech32.Decode(s)
		if err != nil {
			return fmt.Errorf("bech32.Decode(%q) failed: %v", s, err)
		}
		if hrp != c.Hrp || !bytes.Equal(data, c.Data) {
			return fmt.Errorf("bech32.Decode(%q) = (%q,%x), want (%q,%x)", s, hrp, data, c.Hrp, []byte(c.Data))
		}
		for i := range data { // results belong to the caller
			data[i] ^= 0x1f
		}
		if _, again, err := bech32.Decode(s); err != nil || !bytes.Equal(again, c.Data) {
			return fmt.Errorf("bech32.Decode(%q) returns %x (err %v) after the caller modified the slice returned by an earlier call, want %x", s, again, err, []byte(c.Data))
		}
	}
	return nil
}

var kC07Bech = register(&Kind[c07Bech]{
	Prop: "C07", Name: "bech32enc",
	Gen: func(t *rapid.T) c07Bech {
		var hrp string
		if rapid.IntRange(0, 3).Draw(t, "long") == 0 {
			hrp = genHrp(t, 83)
		} else {
			hrp = genHrp(t, 10)
		}
		maxData := 90 - len(hrp) - 7
		n := rapid.IntRange(0, maxData).Draw(t, "n")
		if rapid.IntRange(0, 4).Draw(t, "full") == 0 {
			n = maxData
		}
		data := make([]byte, n)
		for i := range data {
			data[i] = byte(rapid.IntRange(0, 31).Draw(t, "d"))
		}
		return c07Bech{Hrp: hrp, Data: data, Spare: rapid.IntRange(0, 12).Draw(t, "spare")}
	},
	Eval: evalC07Bech,
})

// ---- kind: bech32dec --------------------------------------------------------------

type c07BechStr struct {
	S string `json:"s"`
}

func evalC07BechStr(c c07BechStr, o *Obs) error {
	hrp, data, err := bech32.Decode(c.S)
	rh, rd, rerr := refBech32Decode(c.S)
	if (err == nil) != (rerr == nil) {
		return fmt.Errorf("bech32.Decode(%q): err=%v, BIP173 reference: %v", c.S, err, rerr)
	}
	if err == nil {
		o.Class("bech32dec:accepted")
		o.NT()
		if hrp != rh || !bytes.Equal(data, rd) {
			return fmt.Errorf("bech32.Decode(%q) = (%q,%x), reference (%q,%x)", c.S, hrp, data, rh, rd)
		}
		re, eerr := bech32.Encode(hrp, data)
		if eerr != nil || re != asciiLower(c.S) {
			return fmt.Errorf("bech32.Encode(Decode(%q)) = %q,%v", c.S, re, eerr)
		}
	} else {
		o.Class("bech32dec:rejected:" + rerr.Error())
		if len(c.S) >= 8 {
			o.NT()
		}
	}
	return nil
}

var kC07BechStr = register(&Kind[c07BechStr]{
	Prop: "C07", Name: "bech32dec",
	Gen: func(t *rapid.T) c07BechStr {
		hrp := genHrp(t, 20)
		maxData := 90 - len(hrp) - 7
		n := rapid.IntRange(0, maxData+3).Draw(t, "n") // may exceed 90
		data := make([]byte, n)
		for i := range data {
			data[i] = byte(rapid.IntRange(0, 31).Draw(t, "d"))
		}
		s := refBech32Encode(hrp, data)
		b := []byte(s)
		switch rapid.IntRange(0, 9).Draw(t, "mut") {
		case 0: // upper
			b = []byte(asciiUpper(s))
		case 1: // one letter upper-cased (mixed) if possible
			i := rapid.IntRange(0, len(b)-1).Draw(t, "i")
			if b[i] >= 'a' && b[i] <= 'z' {
				b[i] -= 32
			}
		case 2: // substitute a character by an arbitrary byte
			i := rapid.IntRange(0, len(b)-1).Draw(t, "i")
			b[i] = rapid.Byte().Draw(t, "c")
		case 3: // remove the separator(s)
			b = []byte(strings.ReplaceAll(s, "1", ""))
		case 4: // separator first: with the old checksum, or with one that is valid for the empty prefix
			b = append([]byte("1"), b[len(hrp)+1:]...)
			if rapid.Bool().Draw(t, "emptyhrp_valid") {
				b = []byte(refBech32Encode("", data))
			}
		case 5: // put a '1' inside the last 6 characters (not valid data symbol)
			i := rapid.IntRange(1, 6).Draw(t, "i")
			b[len(b)-i] = '1'
		case 6: // truncate
			b = b[:rapid.IntRange(0, len(b)).Draw(t, "cut")]
		case 7: // foreign data character
			i := rapid.IntRange(len(hrp)+1, len(b)-1).Draw(t, "i")
			b[i] = "bio"[rapid.IntRange(0, 2).Draw(t, "f")]
		case 8: // alias of one character
			b = []byte(aliasChar(t, string(b)))
			if rapid.Bool().Draw(t, "otherconst") {
				// the checksum of another scheme: BIP350's bech32m constant, or some other constant, instead of 1
				k := rapid.SampledFrom([]uint32{0x2bc830a3, 0, 2, 0x3fffffff, 0x2bc830a2}).Draw(t, "const")
				vals := append(append(refBech32HrpExpand(hrp), data...), 0, 0, 0, 0, 0, 0)
				pm := refBech32Polymod(vals) ^ k
				sum := make([]byte, 6)
				for i := range sum {
					sum[i] = byte((pm >> uint(5*(5-i))) & 31)
				}
				b = []byte(hrp + "1")
				for _, d := range append(append([]byte{}, data...), sum...) {
					b = append(b, b32Charset[d])
				}
			}
		default: // unmodified
		}
		return c07BechStr{S: string(b)}
	},
	Eval: evalC07BechStr,
})

// ---- kind: convertbits ------------------------------------------------------------

type c07Conv struct {
	Data  HexBytes `json:"data"`
	From  uint8    `json:"from"`
	To    uint8    `json:"to"`
	Pad   bool     `json:"pad"`
	Spare int      `json:"spare"`
}

func evalC07Conv(c c07Conv, o *Obs) error {
	arg, backing := withSpareCap(c.Data, c.Spare)
	got, err := bech32.ConvertBits(arg, c.From, c.To, c.Pad)
	if !canaryIntact(backing, c.Data) {
		return fmt.Errorf("bech32.ConvertBits modified its argument")
	}
	if err == nil && len(got) > 0 {
		// the result belongs to the caller: writing to a copy's original must not reach the argument
		keep := append([]byte{}, got...)
		for i := range got {
			got[i] ^= 0xff
		}
		if !canaryIntact(backing, c.Data) {
			return fmt.Errorf("bech32.ConvertBits(%d->%d) returned memory it shares with its argument: writing to the result changed the argument", c.From, c.To)
		}
		got = keep
	}
	if len(c.Data) > 0 {
		o.NT()
	}
	o.Class("convertbits:%d->%d", c.From, c.To)
	groups, tail, tailBits := bitStreamRegroup(c.Data, uint(c.From), uint(c.To))
	desc := fmt.Sprintf("ConvertBits(%x,%d,%d,%v)", []byte(c.Data), c.From, c.To, c.Pad)
	if (c.From == 8 && c.To == 5) || (c.From == 5 && c.To == 8) {
		want, ok := refConvertBits(c.Data, uint(c.From), uint(c.To), c.Pad)
		if ok != (err == nil) {
			return fmt.Errorf("%s: err=%v, BIP173 convertbits ok=%v", desc, err, ok)
		}
		if ok && !bytes.Equal(got, want) {
			return fmt.Errorf("%s = %x, BIP173 convertbits gives %x", desc, got, want)
		}
		if !ok {
			o.Class("convertbits:bip173-rejects")
		}
	}
	if c.Pad {
		want := groups
		if tailBits > 0 {
			want = append(append([]byte{}, groups...), tail)
		}
		if err != nil {
			return fmt.Errorf("%s failed with padding allowed: %v", desc, err)
		}
		if !bytes.Equal(got, want) {
			return fmt.Errorf("%s = %x, bit-stream model gives %x", desc, got, want)
		}
		return nil
	}
	switch {
	case tailBits > 0 && tail != 0:
		o.Class("convertbits:nonzero-tail")
		if err == nil {
			return fmt.Errorf("%s accepted a non-zero incomplete group (tail %d bits), returned %x", desc, tailBits, got)
		}
	case tailBits <= 4:
		if err != nil {
			return fmt.Errorf("%s rejected a zero incomplete group of %d bits: %v", desc, tailBits, err)
		}
		if !bytes.Equal(got, groups) {
			return fmt.Errorf("%s = %x, bit-stream model gives %x", desc, got, groups)
		}
	default:
		// zero tail longer than 4 bits: only specified for 5->8 (handled above)
		o.Class("convertbits:long-zero-tail(not asserted)")
		if err == nil && !bytes.Equal(got, groups) {
			return fmt.Errorf("%s = %x, bit-stream model gives %x", desc, got, groups)
		}
	}
	return nil
}

var kC07Conv = register(&Kind[c07Conv]{
	Prop: "C07", Name: "convertbits",
	Gen: func(t *rapid.T) c07Conv {
		from := uint8(rapid.IntRange(1, 8).Draw(t, "from"))
		to := uint8(rapid.IntRange(1, 8).Draw(t, "to"))
		switch rapid.IntRange(0, 3).Draw(t, "std") {
		case 0:
			from, to = 8, 5
		case 1:
			from, to = 5, 8
		}
		n := rapid.IntRange(0, 70).Draw(t, "n")
		if rapid.IntRange(0, 7).Draw(t, "longconv") == 0 { // hundreds of groups: whatever is done in blocks has several of them
			n = rapid.SampledFrom([]int{79, 80, 81, 159, 160, 161, 200, 255, 256, 257, 319, 320, 321, 500, 1000}).Draw(t, "nlong")
		}
		data := genBytesN(t, "data", n)
		for i := range data {
			data[i] &= byte(1<<from - 1)
		}
		return c07Conv{Data: data, From: from, To: to, Pad: rapid.Bool().Draw(t, "pad"),
			Spare: rapid.IntRange(0, 8).Draw(t, "spare")}
	},
	Eval: evalC07Conv,
})

// ---- reference self-test -----------------------------------------------------------

func refSelfCodecs(ev *Ev) {
	b58 := [][2]string{
		{"", ""}, {"61", "2g"}, {"626262", "a3gV"}, {"636363", "aPEr"},
		{"73696d706c792061206c6f6e6720737472696e67", "2cFupjhnEsSn59qHXstmK2ffpLv2"},
		{"00eb15231dfceb60925886b67d065299925915aeb172c06647", "1NS17iag9jJgTHD1VXjvLCEnZuQ3rJDE9L"},
		{"516b6fcd0f", "ABnLTmg"}, {"bf4f89001e670274dd", "3SEo3LWLoPntC"}, {"572e4794", "3EFU7m"},
		{"ecac89cad93923c02321", "EJDM8drfXA6uyA"}, {"10c8511e", "Rt5zm"},
		{"00000000000000000000", "1111111111"},
	}
	for _, v := range b58 {
		raw := mustHex(v[0])
		if refB58Encode(raw) != v[1] {
			ev.HarnessError("refB58Encode(%s) = %q want %q", v[0], refB58Encode(raw), v[1])
		}
		d, ok := refB58Decode(v[1])
		if !ok || !bytes.Equal(d, raw) {
			ev.HarnessError("refB58Decode(%q) = %x", v[1], d)
		}
	}
	for _, s := range []string{"A12UEL5L", "a12uel5l",
		"an83characterlonghumanreadablepartthatcontainsthenumber1andtheexcludedcharactersbio1tt5tgs",
		"abcdef1qpzry9x8gf2tvdw0s3jn54khce6mua7lmqqqxw",
		"11qqqqqqqqqqqqqqqqqqqqqqqqqqqqqqqqqqqqqqqqqqqqqqqqqqqqqqqqqqqqqqqqqqqqqqqqqqqqqqqqqqc8247j",
		"split1checkupstagehandshakeupstreamerranterredcaperred2y9e3w", "?1ezyfcl"} {
		if _, _, err := refBech32Decode(s); err != nil {
			ev.HarnessError("refBech32Decode rejects BIP173 valid vector %q: %v", s, err)
		}
	}
	for _, s := range []string{"\x201nwldj5", "\x7f1axkwrx", "pzry9x0s0muk", "1pzry9x0s0muk", "x1b4n0q5v",
		"li1dgmt3", "A1G7SGD8", "10a06t8", "1qzzfhee",
		"an84characterslonghumanreadablepartthatcontainsthenumber1andtheexcludedcharactersbio1569pvx"} {
		if _, _, err := refBech32Decode(s); err == nil {
			ev.HarnessError("refBech32Decode accepts BIP173 invalid vector %q", s)
		}
	}
	// segwit example: witness program of BC1QW508D6QEJXTDG4Y5R3ZARVARY0C5XW7KV8F3T4
	_, d, err := refBech32Decode("BC1QW508D6QEJXTDG4Y5R3ZARVARY0C5XW7KV8F3T4")
	if err != nil || len(d) == 0 || d[0] != 0 {
		ev.HarnessError("refBech32Decode segwit vector: %v", err)
	} else if prog, ok := refConvertBits(d[1:], 5, 8, false); !ok ||
		!bytes.Equal(prog, mustHex("751e76e8199196d454941c45d1b3a323f1433bd6")) {
		ev.HarnessError("refConvertBits segwit vector: %x", prog)
	}
	refSelfCashAddr(ev)
}

func refSelfCashAddr(ev *Ev) {
	// checksum-level vectors published with the reference implementation
	for _, s := range []string{"prefix:x64nx6hz", "p:gpf8m4h7", "bitcoincash:qpzry9x8gf2tvdw0s3jn54khce6mua7lcw20ayyn",
		"bchtest:testnetaddress4d6njnut", "bchreg:555555555555555555555555555555555555555555555udxmlmrz"} {
		i := strings.IndexByte(s, ':')
		if _, err := refCashDecodeRaw(s[:i], s[i+1:]); err != nil {
			ev.HarnessError("refCashDecodeRaw rejects published vector %q: %v", s, err)
		}
	}
	// address-level vectors from the CashAddr specification
	type vec struct {
		prefix string
		typ    int
		hash   string
		want   string
	}
	vs := []vec{
		{"bitcoincash", 0, "F5BF48B397DAE70BE82B3CCA4793F8EB2B6CDAC9", "qr6m7j9njldwwzlg9v7v53unlr4jkmx6eylep8ekg2"},
		{"bchtest", 1, "F5BF48B397DAE70BE82B3CCA4793F8EB2B6CDAC9", "pr6m7j9njldwwzlg9v7v53unlr4jkmx6eyvwc0uz5t"},
		{"pref", 1, "F5BF48B397DAE70BE82B3CCA4793F8EB2B6CDAC9", "pr6m7j9njldwwzlg9v7v53unlr4jkmx6ey65nvtks5"},
		{"prefix", 15, "F5BF48B397DAE70BE82B3CCA4793F8EB2B6CDAC9", "0r6m7j9njldwwzlg9v7v53unlr4jkmx6ey3qnjwsrf"},
		{"bitcoincash", 0, "7ADBF6C17084BC86C1706827B41A56F5CA32865925E946EA", "q9adhakpwzztepkpwp5z0dq62m6u5v5xtyj7j3h2ws4mr9g0"},
		{"bitcoincash", 0, "3173EF6623C6B48FFD1A3DCC0CC6489B0A07BB47A37F47CFEF4FE69DE825C060", "qvch8mmxy0rtfrlarg7ucrxxfzds5pamg73h7370aa87d80gyhqxq5nlegake"},
		{"bchtest", 1, "3173EF6623C6B48FFD1A3DCC0CC6489B0A07BB47A37F47CFEF4FE69DE825C060", "pvch8mmxy0rtfrlarg7ucrxxfzds5pamg73h7370aa87d80gyhqxq7fqng6m6"},
	}
	for _, v := range vs {
		h := mustHex(strings.ToLower(v.hash))
		if got := refCashEncode(v.prefix, v.typ, h); got != v.want {
			ev.HarnessError("refCashEncode(%s,%d,%s) = %q want %q", v.prefix, v.typ, v.hash, got, v.want)
		}
		typ, hash, err := refCashDecodeStrict(v.prefix, v.want)
		if err != nil || typ != v.typ || !bytes.Equal(hash, h) {
			ev.HarnessError("refCashDecodeStrict(%s:%s) = %d,%x,%v", v.prefix, v.want, typ, hash, err)
		}
	}
	// legacy <-> cashaddr translation table of the specification
	tr := [][3]string{
		{"1BpEi6DfDAUFd7GtittLSdBeYJvcoaVggu", "0", "qpm2qsznhks23z7629mms6s4cwef74vcwvy22gdx6a"},
		{"1KXrWXciRDZUpQwQmuM1DbwsKDLYAYsVLR", "0", "qr95sy3j9xwd2ap32xkykttr4cvcu7as4y0qverfuy"},
		{"16w1D5WRVKJuZUsSRzdLp9w3YGcgoxDXb", "0", "qqq3728yw0y47sqn6l2na30mcw6zm78dzqre909m2r"},
		{"3CWFddi6m4ndiGyKqzYvsFYagqDLPVMTzC", "1", "ppm2qsznhks23z7629mms6s4cwef74vcwvn0h829pq"},
		{"3LDsS579y7sruadqu11beEJoTjdFiFCdX4", "1", "pr95sy3j9xwd2ap32xkykttr4cvcu7as4yc93ky28e"},
		{"31nwvkZwyPdgzjBJZXfDmSWsC4ZLKpYyUw", "1", "pqq3728yw0y47sqn6l2na30mcw6zm78dzq5ucqzc37"},
	}
	for _, v := range tr {
		h, ver, ok := refB58CheckDecode(v[0])
		typ := int(v[1][0] - '0')
		if !ok || len(h) != 20 || (typ == 0 && ver != 0) || (typ == 1 && ver != 5) {
			ev.HarnessError("refB58CheckDecode(%q) = %x,%d,%v", v[0], h, ver, ok)
			continue
		}
		if got := refCashEncode("bitcoincash", typ, h); got != v[2] {
			ev.HarnessError("refCashEncode(translation of %s) = %q want %q", v[0], got, v[2])
		}
	}
}

func mustHex(s string) []byte {
	var h HexBytes
	if err := h.UnmarshalJSON([]byte(`"` + s + `"`)); err != nil {
		panic(err)
	}
	return h
}

// ---- the check ---------------------------------------------------------------------

func TestC07(t *testing.T) {
	propTest(t, "C07", func(ev *Ev) {
		ev.Rule("Base58: exhaustive byte strings of length <=2 and alphabet strings of length <=3, all byte strings "+
			"of length <=2 (thorough <=3) as text for the foreign-character rule, rapid-generated bytes <=512 with "+
			"leading-zero runs and spare capacity; Base58Check: version x payload<=100 with checksum-byte / body "+
			"mutations and decoded lengths 0..8; bech32: (hrp,5-bit data) up to the 90-char limit and mutated "+
			"strings; ConvertBits over all width pairs. Non-trivial = non-empty input (rejected bech32 strings "+
			"count only when >=8 chars). Oracles: independent long-division Base58, BIP173 reference, bit-stream "+
			"model, canary snapshot of arg[:cap].",
			"Go stdlib crypto/sha256 is correct", "reference codecs are pinned to the published Base58 / BIP173 / CashAddr vectors at start-up")
		refSelfCodecs(ev)
		if len(ev.harnessErrors) > 0 {
			return
		}
		// regression: bech32.Encode with spare capacity (finding / fix tracked in KNOWN_FINDINGS.txt)
		kC07Bech.One(ev, c07Bech{Hrp: "a", Data: HexBytes{0, 1, 2}, Spare: 8})

		// exhaustive small scopes, split over shards
		exhaustiveC07(ev)

		kC07Bytes.Run(t, ev, perShard(pick(6000, 3000000)))
		kC07Str.Run(t, ev, perShard(pick(4000, 2000000)))
		kC07Check.Run(t, ev, perShard(pick(4000, 2000000)))
		kC07Bech.Run(t, ev, perShard(pick(3000, 1500000)))
		kC07BechStr.Run(t, ev, perShard(pick(4000, 2000000)))
		kC07Conv.Run(t, ev, perShard(pick(6000, 3000000)))
		kC07Alias.Run(t, ev, perShard(pick(300, 20000)))
		runConcurrent(kC07Bech, t, ev, perShard(pick(150, 15000)), 8)
		runConcurrent(kC07BechStr, t, ev, perShard(pick(150, 15000)), 8)
		runConcurrent(kC07Check, t, ev, perShard(pick(150, 15000)), 8)
		ev.requireClasses("b58bytes:cap>len", "b58bytes:lz>0", "b58str:foreign", "b58check:accepted",
			"b58check:rejected", "bech32enc:cap>len", "bech32enc:len=90", "bech32dec:accepted",
			"convertbits:nonzero-tail", "convertbits:5->8", "convertbits:8->5")
	})
}

func exhaustiveC07(ev *Ev) {
	// (a) all byte strings of length <= 2 through Encode/Decode
	var n, failed int64
	idx := 0
	check := func(b []byte) {
		idx++
		if idx%nShards != shard || failed > 0 {
			return
		}
		n++
		if err := safeEval(evalC07Bytes, c07Bytes{B: b}, &Obs{}); err != nil {
			failed++
			kC07Bytes.One(ev, c07Bytes{B: b})
		}
	}
	check([]byte{})
	for a := 0; a < 256; a++ {
		check([]byte{byte(a)})
		for b := 0; b < 256; b++ {
			check([]byte{byte(a), byte(b)})
		}
	}
	ev.Bulk("exh:b58bytes<=2", n, n)
	ev.Exhaustive("base58 Encode/Decode over all byte strings of length <=2", 65793)
	ev.Sample("b58bytes", c07Bytes{B: HexBytes{0, 255}})

	// (b) all alphabet strings of length <= 3
	n, failed, idx = 0, 0, 0
	checkS := func(s string) {
		idx++
		if idx%nShards != shard || failed > 0 {
			return
		}
		n++
		if err := safeEval(evalC07Str, c07Str{S: s}, &Obs{}); err != nil {
			failed++
			kC07Str.One(ev, c07Str{S: s})
		}
	}
	A := b58Alphabet
	for i := 0; i < 58; i++ {
		checkS(string([]byte{A[i]}))
		for j := 0; j < 58; j++ {
			checkS(string([]byte{A[i], A[j]}))
			for k := 0; k < 58; k++ {
				checkS(string([]byte{A[i], A[j], A[k]}))
			}
		}
	}
	ev.Bulk("exh:b58str-alphabet<=3", n, n)
	ev.Exhaustive("base58 Decode/Encode over all alphabet strings of length <=3", 198534)

	// (c) all byte strings (as text) of length <= 2 (thorough: <= 3): foreign rule
	n, failed, idx = 0, 0, 0
	maxLen := pick(2, 3)
	var rec func(prefix []byte)
	rec = func(prefix []byte) {
		if len(prefix) > 0 {
			checkS(string(prefix))
		}
		if len(prefix) == maxLen {
			return
		}
		for c := 0; c < 256; c++ {
			rec(append(prefix, byte(c)))
		}
	}
	rec(nil)
	ev.Bulk(fmt.Sprintf("exh:b58str-anybyte<=%d", maxLen), n, n)
	size := int64(256 + 65536)
	if maxLen == 3 {
		size += 16777216
	}
	ev.Exhaustive(fmt.Sprintf("base58 Decode over all byte strings of length 1..%d", maxLen), size)
}
