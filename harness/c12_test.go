package harness

// C12 Merkle proof extraction is sound against malformed or malicious messages.

import (
	"fmt"
	"sync"
	"sync/atomic"
	"testing"

	"github.com/gcash/bchd/chaincfg/chainhash"
	"github.com/gcash/bchd/wire"
	"github.com/gcash/bchutil/merkleblock"
	"pgregory.net/rapid"
)

type c12Case struct {
	Count  uint32     `json:"count"`
	Hashes []HexBytes `json:"hashes"` // 1..32 bytes each, right-padded with zeros to 32
	Flags  HexBytes   `json:"flags"`
	Tag    string     `json:"tag"`
}

func c12Hashes(c c12Case) ([]h32, []*chainhash.Hash) {
	hs := make([]h32, len(c.Hashes))
	ps := make([]*chainhash.Hash, len(c.Hashes))
	for i, h := range c.Hashes {
		copy(hs[i][:], h)
		ch := chainhash.Hash(hs[i])
		ps[i] = &ch
	}
	return hs, ps
}

func c12Eval(count uint32, hs []h32, ps []*chainhash.Hash, flags []byte) (string, error) {
	// the flag bytes are the caller's buffer: it is overwritten once the message has been handed over
	flagsArg := append([]byte{}, flags...)
	msg := wire.MsgMerkleBlock{Transactions: count, Hashes: ps, Flags: flagsArg}
	pb := merkleblock.NewMerkleBlockFromMsg(msg)
	for i := range flagsArg {
		flagsArg[i] ^= 0xff
	}
	got := pb.ExtractMatches()
	// the message is an argument: its hash list must be left as it was (same pointers, same values)
	if len(msg.Hashes) != len(hs) {
		return "", fmt.Errorf("ExtractMatches(count=%d, flags %x) changed the length of the message's hash list", count, flags)
	}
	for i := range hs {
		if msg.Hashes[i] != ps[i] || h32(*msg.Hashes[i]) != hs[i] {
			return "", fmt.Errorf("ExtractMatches(count=%d, %d hashes, flags %x) rewrote entry %d of the message's hash list", count, len(hs), flags, i)
		}
	}
	root, matches, why := refPMTExtract(count, hs, flags)
	if (got == nil) != (why != "") {
		if got == nil {
			return why, fmt.Errorf("ExtractMatches(count=%d, %d hashes, flags %x) fails, but an independent evaluation of the same "+
				"partial tree succeeds (root %x, %d matches)", count, len(hs), flags, root[:4], len(matches))
		}
		return why, fmt.Errorf("ExtractMatches(count=%d, %d hashes, flags %x) returns root %x, but the message must be rejected: %s",
			count, len(hs), flags, got[:4], why)
	}
	if got == nil {
		// a rejected message stays rejected, however often it is asked
		if again := pb.ExtractMatches(); again != nil {
			return why, fmt.Errorf("ExtractMatches(count=%d, %d hashes, flags %x) fails the first time and returns root %x the second time; the message must be rejected: %s",
				count, len(hs), flags, again[:4], why)
		}
		return why, nil
	}
	if h32(*got) != root {
		return why, fmt.Errorf("ExtractMatches(count=%d, flags %x): root %x, independent evaluation %x", count, flags, got[:], root[:])
	}
	gm, gi := pb.GetMatches(), pb.GetItems()
	if len(gm) != len(matches) || len(gi) != len(matches) {
		return why, fmt.Errorf("ExtractMatches(count=%d, flags %x): %d hashes / %d positions reported, independent evaluation finds %d matches",
			count, flags, len(gm), len(gi), len(matches))
	}
	for i, m := range matches {
		if h32(*gm[i]) != m.Hash || gi[i] != m.Pos {
			return why, fmt.Errorf("ExtractMatches(count=%d, flags %x): match %d = (%d,%x), independent evaluation (%d,%x)",
				count, flags, i, gi[i], gm[i][:4], m.Pos, m.Hash[:4])
		}
	}
	if pb.BadTree() {
		return why, fmt.Errorf("ExtractMatches succeeded but BadTree() is true")
	}
	// extracting again from the same object must not produce a different story: it either fails or
	// reproduces the same root and the same match list - whatever the caller did with the root it was given
	mine := false // a root that was not computed is the message's own hash object (one-node trees): that one is left alone
	for _, p := range ps {
		if p == got {
			mine = true
		}
	}
	if count%2 == 1 && !mine {
		for i, j := 0, len(got)-1; i < j; i, j = i+1, j-1 { // e.g. turned into display order, in place
			got[i], got[j] = got[j], got[i]
		}
		got[0] ^= 0x80
	}
	if again := pb.ExtractMatches(); again != nil {
		gm2, gi2 := pb.GetMatches(), pb.GetItems()
		if h32(*again) != root || len(gm2) != len(matches) || len(gi2) != len(matches) {
			return why, fmt.Errorf("ExtractMatches(count=%d, flags %x) called a second time on the same object returns root %x with %d hashes / %d positions; "+
				"independent evaluation: root %x, %d matches", count, flags, again[:4], len(gm2), len(gi2), root[:4], len(matches))
		}
		for i, m := range matches {
			if h32(*gm2[i]) != m.Hash || gi2[i] != m.Pos {
				return why, fmt.Errorf("second ExtractMatches call: match %d differs from the independent evaluation", i)
			}
		}
	}
	return why, nil
}

// c12Other is a fixed honest proof (3 transactions, the last one matched) used as a second object.
func c12Other() (wire.MsgMerkleBlock, h32) {
	l := []h32{{0xa1}, {0xa2}, {0xa3}}
	hs, bits := refPMTBuild(l, []bool{false, false, true})
	var ps []*chainhash.Hash
	for i := range hs {
		h := chainhash.Hash(hs[i])
		ps = append(ps, &h)
	}
	lv := refLevels(l)
	return wire.MsgMerkleBlock{Transactions: 3, Hashes: ps, Flags: packFlagBits(bits)}, lv[len(lv)-1][0]
}

func evalC12(c c12Case, o *Obs) error {
	hs, ps := c12Hashes(c)
	// another partial block is created before and extracted after: objects must not share state
	omsg, oroot := c12Other()
	other := merkleblock.NewMerkleBlockFromMsg(omsg)
	why, err := c12Eval(c.Count, hs, ps, c.Flags)
	if got := other.ExtractMatches(); got == nil || h32(*got) != oroot || len(other.GetItems()) != 1 || other.GetItems()[0] != 2 {
		return fmt.Errorf("a second, honest partial block extracted after ExtractMatches(count=%d, flags %x) no longer verifies (root ok %v, items %v)",
			c.Count, []byte(c.Flags), got != nil && h32(*got) == oroot, other.GetItems())
	}
	if why == "" {
		o.Class("C12:accepted")
		_, matches, _ := refPMTExtract(c.Count, hs, c.Flags)
		if len(matches) > 0 {
			o.NT()
			o.Class("C12:accepted-with-matches")
		}
	} else {
		o.Class("C12:rejected:" + why)
		switch why {
		case "count 0", "count too large", "more hashes than transactions", "fewer flag bits than hashes":
		default:
			o.NT()
		}
	}
	if c.Tag != "" {
		o.Class("C12:gen=" + c.Tag)
	}
	return err
}

// honestProof builds a correct proof with the reference builder.
func honestProof(t *rapid.T) (uint32, []h32, []byte) {
	n := rapid.IntRange(1, 40).Draw(t, "n")
	leaves := make([]h32, n)
	salt := byte(rapid.IntRange(0, 255).Draw(t, "salt"))
	for i := range leaves {
		leaves[i] = hashPair(h32{byte(i), byte(i >> 8), salt}, h32{})
	}
	matched := make([]bool, n)
	k := rapid.IntRange(0, 4).Draw(t, "k")
	for i := 0; i < k; i++ {
		matched[rapid.IntRange(0, n-1).Draw(t, "m")] = true
	}
	if rapid.IntRange(0, 7).Draw(t, "wide") == 0 {
		// hundreds of transactions, many of them matched: hundreds of flag bits and of hashes in one message
		n = rapid.SampledFrom([]int{100, 127, 128, 129, 200, 255, 256, 257, 300, 511, 512, 513, 700, 1000}).Draw(t, "nwide")
		leaves = make([]h32, n)
		for i := range leaves {
			leaves[i] = hashPair(h32{byte(i), byte(i >> 8), salt, 0x77}, h32{})
		}
		matched = make([]bool, n)
		switch rapid.IntRange(0, 3).Draw(t, "widepattern") {
		case 0:
			for i := range matched {
				matched[i] = true
			}
		case 1:
			for i := 0; i < n*2/5; i++ {
				matched[i] = true
			}
		case 2:
			for i := range matched {
				matched[i] = i%2 == 0
			}
		default:
			for i := range matched {
				matched[i] = rapid.IntRange(0, 9).Draw(t, "wm") < 3
			}
		}
	}
	hs, bits := refPMTBuild(leaves, matched)
	return uint32(n), hs, packFlagBits(bits)
}

func genC12(t *rapid.T) c12Case {
	if rapid.IntRange(0, 9).Draw(t, "random") == 0 {
		c := c12Case{Tag: "random"}
		c.Count = rapid.SampledFrom([]uint32{0, 1, 2, 3, 5, 8, 100, uint32(refTxnCap()), uint32(refTxnCap()) + 1, 0xffffffff}).Draw(t, "count")
		if rapid.Bool().Draw(t, "hugecount") {
			// any count above the cap, with the one message shape that is well-formed for every count:
			// a single hash and a single 0 flag bit (the root itself, unmatched)
			c.Count = uint32(rapid.Uint64Range(refTxnCap()+1, 1<<32-1).Draw(t, "huge"))
			c.Hashes = []HexBytes{{7}}
			c.Flags = HexBytes{0}
			if rapid.Bool().Draw(t, "matchedroot") {
				c.Flags = HexBytes{1}
			}
			return c
		}
		nh := rapid.IntRange(0, 6).Draw(t, "nh")
		for i := 0; i < nh; i++ {
			c.Hashes = append(c.Hashes, HexBytes{byte(rapid.IntRange(1, 3).Draw(t, "h"))})
		}
		c.Flags = rapid.SliceOfN(rapid.Byte(), 0, 3).Draw(t, "flags")
		return c
	}
	switch rapid.IntRange(0, 11).Draw(t, "directed") {
	case 0:
		// one path through a tree of ANY size up to the cap (and a little beyond): every sibling is a pruned
		// subtree, i.e. just a hash, so the message stays small; sizes around powers of two and around the cap
		n := rapid.Uint64Range(1, refTxnCap()+2).Draw(t, "bign")
		if rapid.IntRange(0, 2).Draw(t, "edge") > 0 {
			base := []uint64{1 << uint(rapid.IntRange(1, 21).Draw(t, "pow")), refTxnCap(),
				uint64(rapid.IntRange(1, 32).Draw(t, "k16")) << 16, uint64(rapid.IntRange(1, 8000).Draw(t, "k8")) << 8}[rapid.IntRange(0, 3).Draw(t, "which")]
			n = base + uint64(rapid.IntRange(-3, 3).Draw(t, "delta"))
			if n < 1 || n > refTxnCap()+2 {
				n = refTxnCap()
			}
		}
		pos := rapid.Uint64Range(0, n-1).Draw(t, "pos")
		if rapid.IntRange(0, 2).Draw(t, "posedge") == 0 {
			pos = []uint64{0, n - 1, n / 2}[rapid.IntRange(0, 2).Draw(t, "pe")]
		}
		height := uint(0)
		for (n+(1<<height)-1)>>height > 1 {
			height++
		}
		c := c12Case{Count: uint32(n), Tag: "synthetic-path"}
		var bitsOut []bool
		var walk func(h uint, p uint64)
		walk = func(h uint, p uint64) {
			onPath := pos>>h == p
			bitsOut = append(bitsOut, onPath)
			if h == 0 || !onPath {
				c.Hashes = append(c.Hashes, HexBytes{byte(h + 1), byte(p), byte(p >> 8), byte(p >> 16), 0x5c})
				return
			}
			walk(h-1, 2*p)
			if 2*p+1 < (n+(1<<(h-1))-1)>>(h-1) {
				walk(h-1, 2*p+1)
			}
		}
		walk(height, 0)
		c.Flags = packFlagBits(bitsOut)
		if rapid.IntRange(0, 3).Draw(t, "levelshort") == 0 && len(c.Hashes) > 2 {
			// the same path presented one level short (the last two entries merged into one hash)
			c.Hashes = c.Hashes[:len(c.Hashes)-1]
			c.Tag = "synthetic-path-short"
		}
		return c
	case 2:
		// many violations at once: 255 / 256 / 257 / 512 pairs of equal sibling leaves, everything matched
		pairs := rapid.SampledFrom([]int{255, 256, 257, 512, 128}).Draw(t, "pairs")
		leaves := make([]h32, 2*pairs)
		matched := make([]bool, 2*pairs)
		for i := 0; i < pairs; i++ {
			leaves[2*i] = hashPair(h32{byte(i), byte(i >> 8), 0x33}, h32{})
			leaves[2*i+1] = leaves[2*i]
			matched[2*i], matched[2*i+1] = true, true
		}
		hs, bits := refPMTBuild(leaves, matched)
		c := c12Case{Count: uint32(2 * pairs), Flags: packFlagBits(bits), Tag: "many-equal-pairs"}
		for _, h := range hs {
			c.Hashes = append(c.Hashes, append(HexBytes{}, h[:]...))
		}
		return c
	case 3:
		// sibling leaves that differ, but only in ways a sloppy comparison folds away: the same value XOR-ed into two
		// words, one word raised and another lowered by the same amount, two words exchanged, top bits of two words flipped
		n := rapid.IntRange(2, 9).Draw(t, "n")
		leaves := make([]h32, n)
		for i := range leaves {
			leaves[i] = hashPair(h32{byte(i), 0x44, byte(n)}, h32{})
		}
		j := 2 * rapid.IntRange(0, n/2-1).Draw(t, "pair")
		v := leaves[j]
		a, b := 4*rapid.IntRange(0, 7).Draw(t, "wa"), 4*rapid.IntRange(0, 7).Draw(t, "wb")
		if a == b {
			b = (a + 4) % 32
		}
		switch rapid.IntRange(0, 3).Draw(t, "rel") {
		case 0:
			for k := 0; k < 4; k++ {
				v[a+k] ^= 0x5a
				v[b+k] ^= 0x5a
			}
		case 1:
			v[a+3] += 9
			v[b+3] -= 9
		case 2:
			for k := 0; k < 4; k++ {
				v[a+k], v[b+k] = v[b+k], v[a+k]
			}
		default:
			v[a] ^= 0x80
			v[b] ^= 0x80
			v[a+3] ^= 0x80
			v[b+3] ^= 0x80
		}
		leaves[j+1] = v
		matched := make([]bool, n)
		matched[rapid.IntRange(0, n-1).Draw(t, "m")] = true
		matched[j] = rapid.Bool().Draw(t, "mj")
		hs, bits := refPMTBuild(leaves, matched)
		c := c12Case{Count: uint32(n), Flags: packFlagBits(bits), Tag: "near-equal-siblings"}
		for _, h := range hs {
			c.Hashes = append(c.Hashes, append(HexBytes{}, h[:]...))
		}
		return c
	case 1:
		// CVE-2012-2459 one level up: the right half of the block repeats the left half; the honest builder then
		// expands one copy and prunes the other to the single hash that the expanded copy computes to
		half := rapid.SampledFrom([]int{1, 2, 4, 8}).Draw(t, "half")
		leaves := make([]h32, 2*half)
		for i := 0; i < half; i++ {
			leaves[i] = hashPair(h32{byte(i), 0x99}, h32{})
			leaves[half+i] = leaves[i]
		}
		matched := make([]bool, 2*half)
		matched[rapid.IntRange(0, half-1).Draw(t, "m")+half*rapid.IntRange(0, 1).Draw(t, "side")] = true
		hs, bits := refPMTBuild(leaves, matched)
		c := c12Case{Count: uint32(2 * half), Flags: packFlagBits(bits), Tag: "repeated-half"}
		for _, h := range hs {
			c.Hashes = append(c.Hashes, append(HexBytes{}, h[:]...))
		}
		return c
	}
	count, hs, flags := honestProof(t)
	c := c12Case{Count: count, Flags: flags}
	for _, h := range hs {
		c.Hashes = append(c.Hashes, append(HexBytes{}, h[:]...))
	}
	nmut := rapid.IntRange(0, 2).Draw(t, "nmut")
	c.Tag = "honest"
	for m := 0; m < nmut; m++ {
		c.Tag = "mutated"
		switch rapid.IntRange(0, 11).Draw(t, "mut") {
		case 0: // flip a flag bit
			if len(c.Flags) > 0 {
				i := rapid.IntRange(0, len(c.Flags)*8-1).Draw(t, "bit")
				c.Flags[i/8] ^= 1 << uint(i%8)
			}
		case 1: // drop a hash
			if len(c.Hashes) > 0 {
				i := rapid.IntRange(0, len(c.Hashes)-1).Draw(t, "i")
				c.Hashes = append(c.Hashes[:i:i], c.Hashes[i+1:]...)
			}
		case 2: // duplicate a hash (insert copy next to it)
			if len(c.Hashes) > 0 {
				i := rapid.IntRange(0, len(c.Hashes)-1).Draw(t, "i")
				dup := append(HexBytes{}, c.Hashes[i]...)
				c.Hashes = append(c.Hashes[:i+1:i+1], append([]HexBytes{dup}, c.Hashes[i+1:]...)...)
			}
		case 3: // swap two hashes
			if len(c.Hashes) > 1 {
				i := rapid.IntRange(0, len(c.Hashes)-2).Draw(t, "i")
				c.Hashes[i], c.Hashes[i+1] = c.Hashes[i+1], c.Hashes[i]
			}
		case 4: // make two neighbouring hashes equal (CVE-2012-2459 shape)
			if len(c.Hashes) > 1 {
				i := rapid.IntRange(0, len(c.Hashes)-2).Draw(t, "i")
				c.Hashes[i+1] = append(HexBytes{}, c.Hashes[i]...)
			}
		case 5: // change the count
			switch rapid.IntRange(0, 6).Draw(t, "cm") {
			case 0:
				c.Count++
			case 1:
				c.Count--
			case 2:
				c.Count *= 2
			case 3:
				c.Count = 0
			case 4:
				c.Count = uint32(refTxnCap()) + uint32(rapid.IntRange(0, 1).Draw(t, "over"))
			default: // anywhere above the cap (32-bit arithmetic on the count must not wrap back below it)
				c.Count = uint32(rapid.Uint64Range(refTxnCap()+1, 1<<32-1).Draw(t, "huge"))
			}
		case 6: // truncate flags by a byte
			if len(c.Flags) > 0 {
				c.Flags = c.Flags[:len(c.Flags)-1]
			}
		case 7: // extend flags by a whole byte, or by many
			c.Flags = append(c.Flags, rapid.SampledFrom([]byte{0, 0, 1, 0xff}).Draw(t, "eb"))
			if rapid.IntRange(0, 2).Draw(t, "many") == 0 {
				c.Flags = append(c.Flags, make([]byte, rapid.SampledFrom([]int{1, 2, 30, 31, 32, 33, 63, 64, 95, 96, 255, 256, 1000}).Draw(t, "surplus"))...)
			}
		case 8: // set padding bits in the last byte
			if len(c.Flags) > 0 {
				c.Flags[len(c.Flags)-1] |= byte(rapid.IntRange(1, 255).Draw(t, "pad")) & 0xf0
			}
		case 9: // replace a hash
			if len(c.Hashes) > 0 {
				i := rapid.IntRange(0, len(c.Hashes)-1).Draw(t, "i")
				c.Hashes[i] = genBytesN(t, "rh", 32)
			}
		case 10: // append an extra hash
			c.Hashes = append(c.Hashes, genBytesN(t, "xh", 32))
		case 11: // no hashes at all
			c.Hashes = nil
		}
	}
	return c
}

var kC12 = register(&Kind[c12Case]{Prop: "C12", Name: "extract", Gen: genC12, Eval: evalC12})

// exhaustiveC12 enumerates the small scope of the statement.
func exhaustiveC12(ev *Ev) {
	alphabet := []h32{{1}, {2}, {3}}
	alphaPtr := make([]*chainhash.Hash, 3)
	for i := range alphabet {
		h := chainhash.Hash(alphabet[i])
		alphaPtr[i] = &h
	}
	cap32 := uint32(refTxnCap())
	counts := []uint32{0, 1, 2, 3, 4, 5, 6, 7, cap32, cap32 + 1, 0xffffffff}
	max2 := uint32(pick(3, 7)) // counts up to this value get all 2-byte flag strings
	type job struct {
		count uint32
		list  []int
	}
	var jobs []job
	for _, cnt := range counts {
		maxLen := int(cnt) + 1
		if cnt > 7 {
			maxLen = 4
		}
		var rec func(prefix []int)
		rec = func(prefix []int) {
			jobs = append(jobs, job{cnt, append([]int{}, prefix...)})
			if len(prefix) == maxLen {
				return
			}
			for a := 0; a < 3; a++ {
				rec(append(prefix, a))
			}
		}
		rec(nil)
	}
	var total atomic.Int64
	var nt atomic.Int64
	var failed atomic.Bool
	reasons := map[string]int64{}
	var mu sync.Mutex
	parallelFor(len(jobs), 16, func(ji int) {
		if ji%nShards != shard || failed.Load() {
			return
		}
		j := jobs[ji]
		hs := make([]h32, len(j.list))
		ps := make([]*chainhash.Hash, len(j.list))
		for i, a := range j.list {
			hs[i], ps[i] = alphabet[a], alphaPtr[a]
		}
		local := map[string]int64{}
		var n, ntl int64
		try := func(flags []byte) {
			n++
			why, err := c12Eval(j.count, hs, ps, flags)
			if why == "" {
				why = "accepted"
			}
			local[why]++
			switch why {
			case "count 0", "count too large", "more hashes than transactions", "fewer flag bits than hashes":
			default:
				ntl++
			}
			if err != nil && !failed.Swap(true) {
				c := c12Case{Count: j.count, Flags: append(HexBytes{}, flags...), Tag: "exhaustive"}
				for _, a := range j.list {
					c.Hashes = append(c.Hashes, HexBytes{alphabet[a][0]})
				}
				kC12.One(ev, c)
			}
		}
		try([]byte{})
		for a := 0; a < 256; a++ {
			try([]byte{byte(a)})
		}
		if j.count <= max2 {
			for a := 0; a < 256; a++ {
				for b := 0; b < 256; b++ {
					try([]byte{byte(a), byte(b)})
				}
			}
		}
		total.Add(n)
		nt.Add(ntl)
		mu.Lock()
		for k, v := range local {
			reasons[k] += v
		}
		mu.Unlock()
	})
	for k, v := range reasons {
		ev.Bulk("C12:exh:"+k, v, 0)
	}
	ev.Bulk("C12:exh-nontrivial", 0, nt.Load())
	ev.Exhaustive(fmt.Sprintf("merkle-block messages with count in {0..7, cap, cap+1, 2^32-1}, hash lists of length 0..count+1 (0..4 for the large "+
		"counts) over a 3-element alphabet, all flag strings of 0 and 1 byte, all 2-byte flag strings for count <= %d", max2), total.Load()*int64(nShards))
	ev.Sample("extract", c12Case{Count: 3, Hashes: []HexBytes{{1}, {2}}, Flags: HexBytes{0x0b}, Tag: "exhaustive"})
}

// ---- kind: the application lowers the cap -------------------------------------------------------
// merkleblock.MaxTxnCount is an exported variable ("max block size variable"): what counts as too many
// transactions is what it says when extraction runs, not what it said when the package was initialised.

type c12Cap struct {
	Cap     uint32 `json:"cap"`
	Matched int    `json:"matched"`
}

func evalC12Cap(c c12Cap, o *Obs) error {
	if c.Cap < 1 || c.Cap > 5000 {
		return hbug("cap")
	}
	old := merkleblock.MaxTxnCount
	merkleblock.MaxTxnCount = c.Cap
	defer func() { merkleblock.MaxTxnCount = old }()
	o.NT()
	o.Class("C12:lowered-cap")
	for _, n := range []uint32{c.Cap, c.Cap + 1, c.Cap + 2, 2 * c.Cap} {
		leaves := make([]h32, n)
		matched := make([]bool, n)
		for i := range leaves {
			leaves[i] = h32{byte(i), byte(i >> 8), 0x77}
		}
		matched[c.Matched%int(n)] = true
		hs, bits := refPMTBuild(leaves, matched)
		var ps []*chainhash.Hash
		for i := range hs {
			h := chainhash.Hash(hs[i])
			ps = append(ps, &h)
		}
		got := merkleblock.NewMerkleBlockFromMsg(wire.MsgMerkleBlock{Transactions: n, Hashes: ps, Flags: packFlagBits(bits)}).ExtractMatches()
		if (got != nil) != (n <= c.Cap) {
			return fmt.Errorf("with merkleblock.MaxTxnCount = %d an honest proof for a block of %d transactions is accepted = %v", c.Cap, n, got != nil)
		}
	}
	return nil
}

var kC12Cap = register(&Kind[c12Cap]{Prop: "C12", Name: "lowered-cap", Eval: evalC12Cap,
	Gen: func(t *rapid.T) c12Cap {
		return c12Cap{Cap: uint32(rapid.SampledFrom([]int{1, 2, 3, 7, 8, 100, 1000}).Draw(t, "cap")), Matched: rapid.IntRange(0, 5000).Draw(t, "m")}
	}})

func TestC12(t *testing.T) {
	propTest(t, "C12", func(ev *Ev) {
		ev.Rule("(a) exhaustive small scope: transaction count in {0..7, cap, cap+1, 2^32-1} x hash lists (length 0..count+1) over a "+
			"3-element alphabet x all flag strings of 0..1 bytes and all 2-byte flag strings for count<=3 (quick) / <=7 (thorough); "+
			"(b) rapid: honest proofs from the reference builder (n<=40) with 0..2 mutations (flag bit flip, drop/duplicate/swap/"+
			"equalise/replace/append hashes, count +-1, x2, 0, cap, flags truncated/extended/padding bits set); (c) random. Oracle: "+
			"independent functional extractor implementing every rejection rule of the statement: implementation fails <=> "+
			"reference rejects; on success root, matched hashes and positions are equal. Non-trivial = accepted with >=1 match, "+
			"or rejected for a reason other than the four pre-traversal checks. Rejection reasons are histogrammed; each must occur.",
			"transaction-count cap = wire.MaxBlockPayload()/61 computed independently of merkleblock.MaxTxnCount",
			"nil hash pointers are not generated (the wire decoder never produces them)")
		refSelfPMT(ev)
		if len(ev.harnessErrors) > 0 {
			return
		}
		exhaustiveC12(ev)
		kC12.Run(t, ev, perShard(pick(20000, 6000000)))
		kC12Cap.Run(t, ev, perShard(pick(40, 2000)))
		ev.requireClasses("C12:accepted-with-matches", "C12:rejected:count 0", "C12:rejected:count too large",
			"C12:rejected:more hashes than transactions", "C12:rejected:fewer flag bits than hashes", "C12:rejected:ran out of flag bits",
			"C12:rejected:ran out of hashes", "C12:rejected:unused hash", "C12:rejected:unused flag byte", "C12:rejected:equal children",
			"C12:exh:equal children", "C12:exh:accepted", "C12:exh:unused flag byte", "C12:exh:unused hash")
	})
}
