package harness

// C01 Every constructible address survives encode -> decode unchanged.

import (
	"bytes"
	"crypto/sha256"
	"encoding/hex"
	"fmt"
	"github.com/gcash/bchd/chaincfg"
	"math/big"
	"reflect"
	"strings"
	"testing"

	"github.com/gcash/bchd/bchec"
	"github.com/gcash/bchutil"
	"golang.org/x/crypto/ripemd160"
	"pgregory.net/rapid"
)

const (
	akP2PKH = iota
	akP2SHHash
	akP2SHScript
	akP2SH32Hash
	akP2SH32Script
	akSlpP2PKH
	akSlpP2SH
	akSlpP2SH32
	akLegacyP2PKH
	akLegacyP2SHHash
	akLegacyP2SHScript
	akPubCompressed
	akPubUncompressed
	akPubHybrid
	akCount
)

var akNames = []string{"P2PKH", "P2SH-hash", "P2SH-script", "P2SH32-hash", "P2SH32-script", "SLP-P2PKH", "SLP-P2SH",
	"SLP-P2SH32", "legacy-P2PKH", "legacy-P2SH-hash", "legacy-P2SH-script", "pubkey-compressed",
	"pubkey-uncompressed", "pubkey-hybrid"}

type c01Case struct {
	Kind    int      `json:"kind"`
	KindStr string   `json:"kind_name"`
	Net     int      `json:"net"`
	Payload HexBytes `json:"payload"` // hash (20/32), script, or scalar
}

func hash160(b []byte) []byte {
	s := sha256.Sum256(b)
	r := ripemd160.New()
	r.Write(s[:])
	return r.Sum(nil)
}

func isSlpKind(k int) bool { return k == akSlpP2PKH || k == akSlpP2SH || k == akSlpP2SH32 }

// construct builds the address and the reference expectation.
func c01Construct(c c01Case) (a bchutil.Address, wantStr string, wantScript []byte, prefix string, err error) {
	p := nets[c.Net].Params
	switch c.Kind {
	case akP2PKH:
		a, err = bchutil.NewAddressPubKeyHash(c.Payload, p)
		prefix = p.CashAddressPrefix
		wantStr, wantScript = refCashEncode(prefix, 0, c.Payload), c.Payload
	case akP2SHHash:
		a, err = bchutil.NewAddressScriptHashFromHash(c.Payload, p)
		prefix = p.CashAddressPrefix
		wantStr, wantScript = refCashEncode(prefix, 1, c.Payload), c.Payload
	case akP2SHScript:
		a, err = bchutil.NewAddressScriptHash(c.Payload, p)
		prefix = p.CashAddressPrefix
		wantScript = hash160(c.Payload)
		wantStr = refCashEncode(prefix, 1, wantScript)
	case akP2SH32Hash:
		a, err = bchutil.NewAddressScriptHash32FromHash(c.Payload, p)
		prefix = p.CashAddressPrefix
		wantStr, wantScript = refCashEncode(prefix, 1, c.Payload), c.Payload
	case akP2SH32Script:
		a, err = bchutil.NewAddressScriptHash32(c.Payload, p)
		prefix = p.CashAddressPrefix
		wantScript = dsha256(c.Payload)
		wantStr = refCashEncode(prefix, 1, wantScript)
	case akSlpP2PKH:
		a, err = bchutil.NewSlpAddressPubKeyHash(c.Payload, p)
		prefix = p.SlpAddressPrefix
		wantStr, wantScript = refCashEncode(prefix, 0, c.Payload), c.Payload
	case akSlpP2SH:
		a, err = bchutil.NewSlpAddressScriptHashFromHash(c.Payload, p)
		prefix = p.SlpAddressPrefix
		wantStr, wantScript = refCashEncode(prefix, 1, c.Payload), c.Payload
	case akSlpP2SH32:
		a, err = bchutil.NewSlpAddressScriptHash32FromHash(c.Payload, p)
		prefix = p.SlpAddressPrefix
		wantStr, wantScript = refCashEncode(prefix, 1, c.Payload), c.Payload
	case akLegacyP2PKH:
		a, err = bchutil.NewLegacyAddressPubKeyHash(c.Payload, p)
		wantStr, wantScript = refB58CheckEncode(c.Payload, p.LegacyPubKeyHashAddrID), c.Payload
	case akLegacyP2SHHash:
		a, err = bchutil.NewLegacyAddressScriptHashFromHash(c.Payload, p)
		wantStr, wantScript = refB58CheckEncode(c.Payload, p.LegacyScriptHashAddrID), c.Payload
	case akLegacyP2SHScript:
		a, err = bchutil.NewLegacyAddressScriptHash(c.Payload, p)
		wantScript = hash160(c.Payload)
		wantStr = refB58CheckEncode(wantScript, p.LegacyScriptHashAddrID)
	case akPubCompressed, akPubUncompressed, akPubHybrid:
		x, y := pubPoint(c.Payload)
		ser := serPub(x, y, c.Kind-akPubCompressed)
		a, err = bchutil.NewAddressPubKey(ser, p)
		wantScript = ser
		wantStr = refB58CheckEncode(hash160(ser), p.LegacyPubKeyHashAddrID)
	default:
		err = hbug("bad kind %d", c.Kind)
	}
	return
}

// c01TypedPayload: the typed views of the payload (Hash160 / Hash256 / PubKey) are the payload.
func c01TypedPayload(a bchutil.Address, want []byte) error {
	switch t := a.(type) {
	case interface{ Hash160() *[20]byte }:
		if h := t.Hash160(); h == nil || !bytes.Equal(h[:], want) {
			return fmt.Errorf("Hash160() = %x, want %x", h, want)
		}
	case interface{ Hash256() *[32]byte }:
		if h := t.Hash256(); h == nil || !bytes.Equal(h[:], want) {
			return fmt.Errorf("Hash256() = %x, want %x", h, want)
		}
	case *bchutil.AddressPubKey:
		pk := t.PubKey()
		if pk == nil || !onCurve(pk.X, pk.Y) {
			return fmt.Errorf("PubKey() is not a point of the curve")
		}
		if x := pad32(pk.X); !bytes.Equal(x, want[1:33]) {
			return fmt.Errorf("PubKey().X = %x, the serialisation carries %x", x, want[1:33])
		}
		if len(want) == 65 && !bytes.Equal(pad32(pk.Y), want[33:]) {
			return fmt.Errorf("PubKey().Y = %x, the serialisation carries %x", pad32(pk.Y), want[33:])
		}
		if len(want) == 33 && byte(pk.Y.Bit(0)) != want[0]&1 {
			return fmt.Errorf("PubKey().Y has the wrong parity for format byte %#x", want[0])
		}
	default:
		return hbug("address type %T without a typed payload accessor", a)
	}
	return nil
}

func evalC01(c c01Case, o *Obs) error {
	if c.Kind < 0 || c.Kind >= akCount || c.Net < 0 || c.Net >= len(nets) {
		return hbug("bad case")
	}
	p := nets[c.Net].Params
	if isSlpKind(c.Kind) && p.SlpAddressPrefix == "" {
		return hbug("SLP kind generated for a net without SLP prefix")
	}
	name := akNames[c.Kind]
	if isKnown("C01-p2sh32") && (c.Kind == akP2SH32Hash || c.Kind == akP2SH32Script || c.Kind == akSlpP2SH32) {
		o.Excluded("C01-p2sh32")
		return nil
	}
	a, wantStr, wantScript, prefix, err := c01Construct(c)
	if err != nil {
		if _, ok := err.(harnessBug); ok {
			return err
		}
		return fmt.Errorf("%s constructor on %s failed for payload %x: %v", name, nets[c.Net].Name, []byte(c.Payload), err)
	}
	o.NT()
	o.Class("C01:%s/%s", name, nets[c.Net].Name)
	if err := c01TypedPayload(a, wantScript); err != nil {
		return fmt.Errorf("%s on %s: %v", name, nets[c.Net].Name, err)
	}
	// the cash <-> SLP conversions build a new address; the one they are given stays what it was
	if p.SlpAddressPrefix != "" {
		before := a.String()
		for _, conv := range []func(bchutil.Address, *chaincfg.Params) (bchutil.Address, error){bchutil.ConvertCashToSlpAddress, bchutil.ConvertSlpToCashAddress} {
			if conv2, err := conv(a, p); err == nil && conv2 != nil {
				_ = conv2.String()
			}
			if a.String() != before || !bytes.Equal(a.ScriptAddress(), wantScript) {
				return fmt.Errorf("%s on %s: after a cash/SLP conversion of the address, the address itself prints as %q (was %q)", name, nets[c.Net].Name, a.String(), before)
			}
		}
	}
	if !bytes.Equal(a.ScriptAddress(), wantScript) {
		return fmt.Errorf("%s on %s: ScriptAddress() = %x, want %x (payload %x)", name, nets[c.Net].Name,
			a.ScriptAddress(), wantScript, []byte(c.Payload))
	}
	enc := a.EncodeAddress()
	if enc != wantStr {
		return fmt.Errorf("%s on %s, payload %x: EncodeAddress() = %q, specification prescribes %q", name,
			nets[c.Net].Name, []byte(c.Payload), enc, wantStr)
	}
	// another address is created and encoded in between; the first one keeps its encoding
	if ob, err := bchutil.NewAddressScriptHashFromHash(bytes.Repeat([]byte{0x5c}, 20), nets[(c.Net+1)%len(nets)].Params); err == nil {
		ob.EncodeAddress()
		bchutil.DecodeAddress(ob.EncodeAddress(), nets[(c.Net+1)%len(nets)].Params)
	}
	if again := a.EncodeAddress(); again != enc {
		return fmt.Errorf("%s on %s: EncodeAddress() returns %q, then %q", name, nets[c.Net].Name, enc, again)
	}
	isPub := c.Kind >= akPubCompressed
	str := a.String()
	var renderings []string
	switch {
	case isPub:
		if str != hex.EncodeToString(wantScript) {
			return fmt.Errorf("%s: String() = %q, want hex of the serialised key", name, str)
		}
		renderings = []string{str, asciiUpper(str)}
	case prefix != "":
		if str != enc {
			return fmt.Errorf("%s: String() %q != EncodeAddress() %q", name, str, enc)
		}
		renderings = []string{enc, asciiUpper(enc), prefix + ":" + enc, asciiUpper(prefix + ":" + enc)}
	default:
		if str != enc {
			return fmt.Errorf("%s: String() %q != EncodeAddress() %q", name, str, enc)
		}
		renderings = []string{enc}
	}
	for _, r := range renderings {
		d, err := bchutil.DecodeAddress(r, p)
		if err != nil {
			return fmt.Errorf("%s on %s, payload %x: DecodeAddress(%q) failed: %v", name, nets[c.Net].Name,
				[]byte(c.Payload), r, err)
		}
		if reflect.TypeOf(d) != reflect.TypeOf(a) {
			return fmt.Errorf("%s on %s: DecodeAddress(%q) has kind %T, constructed kind %T", name, nets[c.Net].Name, r, d, a)
		}
		if err := c01TypedPayload(d, wantScript); err != nil {
			return fmt.Errorf("%s on %s: DecodeAddress(%q): %v", name, nets[c.Net].Name, r, err)
		}
		if !bytes.Equal(d.ScriptAddress(), wantScript) {
			return fmt.Errorf("%s on %s: DecodeAddress(%q).ScriptAddress() = %x, want %x", name, nets[c.Net].Name, r,
				d.ScriptAddress(), wantScript)
		}
		if d.EncodeAddress() != enc || d.String() != str {
			return fmt.Errorf("%s on %s: DecodeAddress(%q) re-encodes to %q / %q, want %q / %q", name, nets[c.Net].Name,
				r, d.EncodeAddress(), d.String(), enc, str)
		}
		if !isSlpKind(c.Kind) && !d.IsForNet(p) {
			return fmt.Errorf("%s on %s: DecodeAddress(%q).IsForNet(%s) = false", name, nets[c.Net].Name, r, nets[c.Net].Name)
		}
		if pk, ok := d.(*bchutil.AddressPubKey); ok {
			wantFmt := map[int]bchutil.PubKeyFormat{akPubCompressed: bchutil.PKFCompressed,
				akPubUncompressed: bchutil.PKFUncompressed, akPubHybrid: bchutil.PKFHybrid}[c.Kind]
			if pk.Format() != wantFmt {
				return fmt.Errorf("%s: decoded public key has format %v", name, pk.Format())
			}
			// a decoded address is the caller's: changing it must not show in later decodes of the same string
			pk.SetFormat((wantFmt + 1) % 3)
			if d2, err := bchutil.DecodeAddress(r, p); err != nil || d2.String() != str || !bytes.Equal(d2.ScriptAddress(), wantScript) {
				return fmt.Errorf("%s on %s: DecodeAddress(%q) after SetFormat on an earlier result of the same call returns %v (err %v)", name, nets[c.Net].Name, r, d2, err)
			}
		}
	}
	if !isSlpKind(c.Kind) && !a.IsForNet(p) {
		return fmt.Errorf("%s on %s: constructed address IsForNet(own net) = false", name, nets[c.Net].Name)
	}
	// a public-key address can be switched to another serialisation: every view follows
	if pk, ok := a.(*bchutil.AddressPubKey); ok {
		x, y := pubPoint(c.Payload)
		for step := 1; step <= 3; step++ {
			f := (c.Kind - akPubCompressed + step) % 3
			pk.SetFormat(map[int]bchutil.PubKeyFormat{0: bchutil.PKFCompressed, 1: bchutil.PKFUncompressed, 2: bchutil.PKFHybrid}[f])
			ser := serPub(x, y, f)
			if !bytes.Equal(pk.ScriptAddress(), ser) || pk.String() != hex.EncodeToString(ser) {
				return fmt.Errorf("%s: after SetFormat(%d) ScriptAddress/String do not use the new serialisation", name, f)
			}
			if got, want := pk.EncodeAddress(), refB58CheckEncode(hash160(ser), p.LegacyPubKeyHashAddrID); got != want {
				return fmt.Errorf("%s on %s: after SetFormat(%d) EncodeAddress() = %q, the address of the new serialisation is %q", name, nets[c.Net].Name, f, got, want)
			}
			if got := pk.AddressPubKeyHash().ScriptAddress(); !bytes.Equal(got, hash160(ser)) {
				return fmt.Errorf("%s: after SetFormat(%d) AddressPubKeyHash() carries %x, want HASH160 of the new serialisation %x", name, f, got, hash160(ser))
			}
			// ... and it is a P2PKH address of a network that carries the key's identifier byte (a public-key address
			// only remembers that byte, and testnet3 / testnet4 / chipnet / regtest share theirs), in that network's
			// CashAddr rendering
			pkh, okNet := pk.AddressPubKeyHash(), false
			for _, n := range nets {
				if n.Params.LegacyPubKeyHashAddrID == p.LegacyPubKeyHashAddrID && pkh.IsForNet(n.Params) &&
					pkh.EncodeAddress() == refCashEncode(n.Params.CashAddressPrefix, 0, hash160(ser)) {
					okNet = true
				}
			}
			if !okNet && c.Net < nBuiltinNets { // for a caller-made network the library has no way from the byte to the prefix
				return fmt.Errorf("%s on %s: AddressPubKeyHash() = %q is not the P2PKH address of that key on any network with identifier byte %#x",
					name, nets[c.Net].Name, pkh.EncodeAddress(), p.LegacyPubKeyHashAddrID)
			}
		}
	}
	return nil
}

func c01PayloadLen(kind int) (fixed int, script bool, scalar bool) {
	switch kind {
	case akP2SHScript, akP2SH32Script, akLegacyP2SHScript:
		return 0, true, false
	case akP2SH32Hash, akSlpP2SH32:
		return 32, false, false
	case akPubCompressed, akPubUncompressed, akPubHybrid:
		return 32, false, true
	}
	return 20, false, false
}

// genSlpNet draws a network that has an SLP prefix (simnet has none).
func genSlpNet(t *rapid.T, label string) int {
	var withSlp []int
	for i, ni := range nets {
		if ni.Params.SlpAddressPrefix != "" {
			withSlp = append(withSlp, i)
		}
	}
	return rapid.SampledFrom(withSlp).Draw(t, label)
}

var kC01 = register(&Kind[c01Case]{
	Prop: "C01", Name: "addr",
	Gen: func(t *rapid.T) c01Case {
		k := rapid.IntRange(0, akCount-1).Draw(t, "kind")
		n := genNet(t)
		if isSlpKind(k) {
			n = genSlpNet(t, "slpnet")
		}
		c := c01Case{Kind: k, KindStr: akNames[k], Net: n}
		fixed, script, scalar := c01PayloadLen(k)
		switch {
		case script:
			c.Payload = genBytes(t, "script", 0, 600)
		case scalar:
			c.Payload = genScalar(t, "k")
		default:
			c.Payload = genBytesN(t, "hash", fixed)
		}
		return c
	},
	Eval: evalC01,
})

// structuredHashes returns hashes whose bit patterns stress the 5-bit packing.
func structuredHashes(n int) [][]byte {
	var out [][]byte
	for z := 0; z <= n; z++ { // z leading zero bytes then 0xff..
		h := make([]byte, n)
		for i := z; i < n; i++ {
			h[i] = 0xff
		}
		out = append(out, h)
	}
	for bits := 1; bits <= 8; bits++ { // only the last `bits` bits set / cleared
		h := make([]byte, n)
		h[n-1] = byte(1<<uint(bits) - 1)
		out = append(out, h)
		g := bytes.Repeat([]byte{0xff}, n)
		g[n-1] = ^byte(1<<uint(bits) - 1)
		out = append(out, g)
	}
	for i := 0; i < 8; i++ { // single bit at byte boundaries of the 5-bit groups
		h := make([]byte, n)
		h[(i*5/8)%n] = 1 << uint(i)
		out = append(out, h)
	}
	seq := make([]byte, n)
	for i := range seq {
		seq[i] = byte(i*37 + 11)
	}
	return append(out, seq)
}

func TestC01(t *testing.T) {
	propTest(t, "C01", func(ev *Ev) {
		ev.Rule("address kind (14 kinds) x network (6) x payload (biased 20/32-byte hashes, scripts 0..600 bytes, secp256k1 "+
			"scalars -> public keys); deterministic grid of structured hashes (leading zero bytes, last 1..8 bits, single bits) "+
			"for every kind x net, then rapid-generated cases. Each case: constructor, EncodeAddress == independent CashAddr / "+
			"Base58Check reference, and DecodeAddress of every rendering (lower, upper, prefix-qualified, upper prefix-qualified; "+
			"hex lower/upper for public keys) gives same kind, payload, strings, IsForNet. Every case is non-trivial; "+
			"distinct by (kind, net, payload).",
			"reference CashAddr/Base58Check encoders are pinned to the specification's vectors",
			"crypto/sha256 and x/crypto/ripemd160 are correct", "bchec curve arithmetic is used to derive public keys from scalars")
		refSelfCodecs(ev)
		if len(ev.harnessErrors) > 0 {
			return
		}
		// deterministic grid, split over shards
		idx := 0
		for k := 0; k < akCount; k++ {
			for n := range nets {
				if isSlpKind(k) && nets[n].Params.SlpAddressPrefix == "" {
					continue
				}
				fixed, script, scalar := c01PayloadLen(k)
				var payloads [][]byte
				switch {
				case script:
					payloads = [][]byte{{}, {0}, {0x51}, bytes.Repeat([]byte{0xac}, 520), structuredHashes(23)[5]}
				case scalar:
					payloads = structuredHashes(32)[1:32] // 1..31 leading zero bytes
					one := make([]byte, 32)
					one[31] = 1
					payloads = append(payloads, one, pad32(curveNMinus1()))
				default:
					payloads = structuredHashes(fixed)
				}
				for _, pl := range payloads {
					idx++
					if idx%nShards != shard {
						continue
					}
					if !kC01.One(ev, c01Case{Kind: k, KindStr: akNames[k], Net: n, Payload: pl}) {
						return // first grid failure is enough; rapid part would only repeat it
					}
				}
			}
		}
		// directed: compressed public keys whose hex form lies entirely inside the CashAddr alphabet
		// (no 'b', no '1'; about 1 key in 5000) - the only hex strings that get past the character
		// checks of the CashAddr branch of DecodeAddress
		if shard == 0 {
			found := 0
			gx, gy := pubPoint(pad32(big.NewInt(1)))
			x, y := gx, gy
			for k := int64(1); k < 60000 && found < pick(3, 10); k++ {
				if k > 1 {
					x, y = bchec.S256().Add(x, y, gx, gy)
				}
				h := hex.EncodeToString(serPub(x, y, 0))
				if !strings.ContainsAny(h, "b1") {
					found++
					for n := range nets {
						ok := kC01.One(ev, c01Case{Kind: akPubCompressed, KindStr: akNames[akPubCompressed], Net: n, Payload: pad32(big.NewInt(k))})
						ev.mu.Lock()
						ev.classes["C01:pubkey-hex-inside-cashaddr-alphabet"]++
						ev.mu.Unlock()
						if !ok {
							return
						}
					}
				}
			}
		}
		kC01.Run(t, ev, perShard(pick(6000, 4000000)))
		runConcurrent(kC01, t, ev, perShard(pick(200, 20000)), 8)
		{
			var need []string
			for k := 0; k < akCount; k++ {
				for n := range nets {
					if isSlpKind(k) && nets[n].Params.SlpAddressPrefix == "" {
						continue
					}
					if isKnown("C01-p2sh32") && (k == akP2SH32Hash || k == akP2SH32Script || k == akSlpP2SH32) {
						continue
					}
					need = append(need, fmt.Sprintf("C01:%s/%s", akNames[k], nets[n].Name))
				}
			}
			need = append(need, "C01:pubkey-hex-inside-cashaddr-alphabet")
			ev.requireClasses(need...)
		}
	})
}
