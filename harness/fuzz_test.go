package harness

// Native coverage-guided fuzz targets (thorough tier of C08 only; cannot be pinned to
// a seed - the saved failing input is the reproducible unit).  Each target decodes
// the fuzzer's arguments into the same case structures the rapid kinds use and runs
// the same oracle (no panic, no repeated slow call, allocation bound), so a crasher
// is written as an ordinary JSON replay file under /verif/replays/C08/.

import (
	"encoding/json"
	"errors"
	"fmt"
	"os"
	"path/filepath"
	"testing"

	"pgregory.net/rapid"
)

// fuzzKind drives one of the rapid kinds with Go's coverage-guided fuzzer: the fuzz
// input is rapid's bit stream, so the structured generator (valid checksums, grammar)
// stays in place while the fuzzer steers its choices by coverage feedback.
func fuzzKind[C any](f *testing.F, k *Kind[C]) {
	f.Fuzz(rapid.MakeFuzz(func(t *rapid.T) {
		c := k.Gen(t)
		if err := safeEval(k.Eval, c, &Obs{}); err != nil {
			var hb harnessBug
			if errors.As(err, &hb) {
				t.Skip("harness precondition")
			}
			js, _ := json.Marshal(c)
			dir := filepath.Join(envStr("VERIF_REPLAY_ROOT", filepath.Join(verifRoot, "replays")), k.Prop)
			os.MkdirAll(dir, 0o755)
			path := filepath.Join(dir, fmt.Sprintf("%s-fuzz-%016x.json", k.Name, fingerprint(k.Name, js)))
			doc, _ := json.MarshalIndent(map[string]any{"property": k.Prop, "kind": k.Name, "case": json.RawMessage(js), "message": err.Error()}, "", " ")
			os.WriteFile(path, doc, 0o644)
			fmt.Printf("FUZZ-FAILCASE property=%s kind=%s replay=%s\n  %s\n", k.Prop, k.Name, path, firstLine(err.Error()))
			t.Fatalf("%s", firstLine(err.Error()))
		}
	}))
}

func FuzzC02Decode(f *testing.F)   { fuzzKind(f, kC02) }
func FuzzC05Hostile(f *testing.F)  { fuzzKind(f, kC05Hostile) }
func FuzzC06Hostile(f *testing.F)  { fuzzKind(f, kC06Hostile) }
func FuzzC07BechStr(f *testing.F)  { fuzzKind(f, kC07BechStr) }
func FuzzC07Check(f *testing.F)    { fuzzKind(f, kC07Check) }
func FuzzC12Extract(f *testing.F)  { fuzzKind(f, kC12) }
func FuzzC10FilterTx(f *testing.F) { fuzzKind(f, kC10) }
func FuzzC19Select(f *testing.F)   { fuzzKind(f, kC19Sel) }

func fuzzFail[C any](t *testing.T, kind string, c C, err error) {
	fuzzFailProp(t, "C08", kind, c, err)
}

func fuzzFailProp[C any](t testing.TB, prop, kind string, c C, err error) {
	var hb harnessBug
	if errors.As(err, &hb) {
		t.Skip("harness precondition: " + hb.msg)
	}
	js, _ := json.Marshal(c)
	dir := filepath.Join(envStr("VERIF_REPLAY_ROOT", filepath.Join(verifRoot, "replays")), prop)
	os.MkdirAll(dir, 0o755)
	path := filepath.Join(dir, fmt.Sprintf("%s-fuzz-%016x.json", kind, fingerprint(kind, js)))
	doc, _ := json.MarshalIndent(map[string]any{"property": prop, "kind": kind, "case": json.RawMessage(js), "message": err.Error()}, "", " ")
	os.WriteFile(path, doc, 0o644)
	fmt.Printf("FUZZ-FAILCASE property=%s kind=%s replay=%s\n  %s\n", prop, kind, path, firstLine(err.Error()))
	t.Fatalf("%s", firstLine(err.Error()))
}

func FuzzC08Strings(f *testing.F) {
	for _, s := range []string{"bitcoincash:qpm2qsznhks23z7629mms6s4cwef74vcwvy22gdx6a", "qpm2qsznhks23z7629mms6s4cwef74vcwvy22gdx6a",
		"1BpEi6DfDAUFd7GtittLSdBeYJvcoaVggu", "5HueCGU8rMjxEXxiPuD5BDku4MkFqeZyd4dZ1jvhTVqvbTLvyTJ", "prefix:x64nx6hz", "p:gpf8m4h7", "aaaad:qqqqqqq",
		"xprv9s21ZrQH143K3QTDL4LXw2F7HEK3wJUD2nW2nRk4stbPy6cq3jPPqjiChkVvvNKmPGJxWUtg6LnF5kejMRNNU3TGtRBeJgk33yuGBxrMPHi",
		"a12uel5l", "split1checkupstagehandshakeupstreamerranterredcaperred2y9e3w", "simpleledger:qrkjty23a5yl7vcvcnyh4dpnxxzuzs4lzqvesp65yq",
		"02192d74d0cb94344c9569c2e77901573d8d7903c3ebec3a957724895dca52c6b4", "", ":", "1", "11111"} {
		f.Add(s)
	}
	f.Fuzz(func(t *testing.T, s string) {
		if len(s) > 16384 {
			return
		}
		c := c08Str{S: s, Origin: "fuzz"}
		if err := safeEval(evalC08Str, c, &Obs{}); err != nil {
			fuzzFail(t, "strings", c, err)
		}
	})
}

func FuzzC08JSON(f *testing.F) {
	for _, s := range []string{`{}`, `{"a":["ab",1]}`, `{"unconfirmed_transaction":{"transaction":{"hash":"00"}}}`, `[[[[1]]]]`,
		`{"block_locator_hashes":["0000000000000000000000000000000000000000000000000000000000000000", null]}`, `{"x":null}`, `nul`} {
		f.Add(s, 0)
	}
	f.Fuzz(func(t *testing.T, s string, target int) {
		if len(s) > 16384 {
			return
		}
		c := c08JSON{Doc: s, Target: target}
		if err := safeEval(evalC08JSON, c, &Obs{}); err != nil {
			fuzzFail(t, "json", c, err)
		}
	})
}

func FuzzC08GCS(f *testing.F) {
	f.Add(uint32(2), uint8(19), uint64(784931), []byte{0x12, 0x34}, true, []byte{1})
	f.Add(uint32(1<<25), uint8(0), uint64(1), []byte{0}, false, []byte{})
	f.Fuzz(func(t *testing.T, n uint32, p uint8, m uint64, data []byte, nform bool, q []byte) {
		if len(data) > 4096 || len(q) > 256 {
			return
		}
		if n > 1<<26 {
			n = 1 << 26 // keep a defect measurable without exhausting memory
		}
		c := c08GCS{N: n, P: p, M: m, Data: data, NForm: nform, Query: []HexBytes{q, {}}}
		if err := safeEval(evalC08GCS, c, &Obs{}); err != nil {
			fuzzFail(t, "gcs", c, err)
		}
	})
}

func FuzzC08Merkle(f *testing.F) {
	f.Add(uint32(3), []byte{1, 2}, []byte{0x0b}, false)
	f.Add(uint32(0), []byte{}, []byte{}, true)
	f.Fuzz(func(t *testing.T, count uint32, hashes []byte, flags []byte, viaWire bool) {
		if len(hashes) > 64 || len(flags) > 4096 {
			return
		}
		c := c08Merkle{ViaWire: viaWire, C: c12Case{Count: count, Flags: flags}}
		for _, h := range hashes {
			c.C.Hashes = append(c.C.Hashes, HexBytes{h})
		}
		if err := safeEval(evalC08Merkle, c, &Obs{}); err != nil {
			fuzzFail(t, "merkleblock", c, err)
		}
	})
}

func FuzzC08Filter(f *testing.F) {
	f.Add(0, uint8(0), uint32(3), uint32(0), uint8(1), true, []byte{1}, uint32(0), uint64(0))
	f.Add(3, uint8(0xff), uint32(50), uint32(7), uint8(2), false, []byte{}, uint32(10), uint64(0x3f847ae147ae147b))
	f.Fuzz(func(t *testing.T, flen int, fill uint8, k, tweak uint32, flags uint8, viaWire bool, item []byte, elements uint32, fpbits uint64) {
		if flen < 0 || flen > 36000 || k > 50 || len(item) > 512 {
			return
		}
		c := c08Filter{FilterLen: flen, Fill: fill, HashFuncs: k, Tweak: tweak, Flags: flags % 3, ViaWire: viaWire, Item: item, ReloadLen: int(elements % 70),
			Elements: elements, FPBits: fpbits, Tx: c10Case{Len: 1, K: 1}}
		if err := safeEval(evalC08Filter, c, &Obs{}); err != nil {
			fuzzFail(t, "filterload", c, err)
		}
	})
}

func FuzzC08Wire(f *testing.F) {
	f.Add([]byte{1, 0, 0, 0, 0})
	tx, _ := serializeTx(buildC16Tx(c16TxSpec{NIn: 1, NOut: 2, ScriptLen: 5, Token: 3, Amount: 7, Salt: 1}, 1))
	f.Add(tx)
	f.Add(append(make([]byte, 80), 1))
	f.Fuzz(func(t *testing.T, b []byte) {
		if len(b) > 4096 {
			return
		}
		c := c08Bytes{B: b, Origin: "fuzz"}
		if err := safeEval(evalC08Wire, c, &Obs{}); err != nil {
			fuzzFail(t, "wire", c, err)
		}
	})
}
