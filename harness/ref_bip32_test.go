package harness

// Reference BIP32 (written from the BIP): HMAC-SHA512, big.Int arithmetic mod n, own
// 78-byte serialiser.  Point multiplication / addition are taken from bchec (trusted
// dependency); point (de)serialisation is local.

import (
	"crypto/hmac"
	"crypto/sha512"
	"encoding/binary"
	"errors"
	"math/big"

	"github.com/gcash/bchd/bchec"
)

type refKey struct {
	Version  [4]byte
	Depth    byte
	ParentFP [4]byte
	ChildNum uint32
	Chain    [32]byte
	Priv     *big.Int // nil for public keys
	X, Y     *big.Int
}

var (
	errRefSeedLen   = errors.New("ref: seed length")
	errRefUnusable  = errors.New("ref: unusable seed")
	errRefHardPub   = errors.New("ref: hardened from public")
	errRefDepth     = errors.New("ref: depth")
	errRefBadChild  = errors.New("ref: invalid child")
	hdVersionToPub  = map[[4]byte][4]byte{}
	hdVersionsKnown = false
)

func hmac512(key, data []byte) []byte {
	h := hmac.New(sha512.New, key)
	h.Write(data)
	return h.Sum(nil)
}

func initHDVersions() {
	if hdVersionsKnown {
		return
	}
	for _, n := range nets {
		hdVersionToPub[n.Params.HDPrivateKeyID] = n.Params.HDPublicKeyID
	}
	hdVersionsKnown = true
}

func refMaster(seed []byte, ni int) (*refKey, error) {
	if len(seed) < 16 || len(seed) > 64 {
		return nil, errRefSeedLen
	}
	I := hmac512([]byte("Bitcoin seed"), seed)
	k := new(big.Int).SetBytes(I[:32])
	if k.Sign() == 0 || k.Cmp(curveN) >= 0 {
		return nil, errRefUnusable
	}
	r := &refKey{Version: nets[ni].Params.HDPrivateKeyID, Priv: k}
	copy(r.Chain[:], I[32:])
	r.X, r.Y = bchec.S256().ScalarBaseMult(pad32(k))
	return r, nil
}

func (k *refKey) pubBytes() []byte { return serPub(k.X, k.Y, 0) }

func (k *refKey) fingerprint() [4]byte {
	var fp [4]byte
	copy(fp[:], hash160(k.pubBytes())[:4])
	return fp
}

func (k *refKey) child(i uint32) (*refKey, error) {
	if k.Depth == 255 {
		return nil, errRefDepth
	}
	hard := i >= 0x80000000
	if hard && k.Priv == nil {
		return nil, errRefHardPub
	}
	var data []byte
	if hard {
		data = append([]byte{0}, pad32(k.Priv)...)
	} else {
		data = k.pubBytes()
	}
	var ib [4]byte
	binary.BigEndian.PutUint32(ib[:], i)
	data = append(data, ib[:]...)
	I := hmac512(k.Chain[:], data)
	il := new(big.Int).SetBytes(I[:32])
	if il.Cmp(curveN) >= 0 {
		return nil, errRefBadChild
	}
	c := &refKey{Version: k.Version, Depth: k.Depth + 1, ParentFP: k.fingerprint(), ChildNum: i}
	copy(c.Chain[:], I[32:])
	if k.Priv != nil {
		ck := new(big.Int).Add(il, k.Priv)
		ck.Mod(ck, curveN)
		if ck.Sign() == 0 {
			return nil, errRefBadChild
		}
		c.Priv = ck
		c.X, c.Y = bchec.S256().ScalarBaseMult(pad32(ck))
	} else {
		ix, iy := bchec.S256().ScalarBaseMult(I[:32])
		c.X, c.Y = bchec.S256().Add(ix, iy, k.X, k.Y)
		if c.X.Sign() == 0 && c.Y.Sign() == 0 {
			return nil, errRefBadChild
		}
	}
	return c, nil
}

func (k *refKey) neuter() *refKey {
	initHDVersions()
	if k.Priv == nil {
		return k
	}
	n := *k
	n.Priv = nil
	n.Version = hdVersionToPub[k.Version]
	return &n
}

func (k *refKey) payload() []byte {
	out := make([]byte, 0, 78)
	out = append(out, k.Version[:]...)
	out = append(out, k.Depth)
	out = append(out, k.ParentFP[:]...)
	var ib [4]byte
	binary.BigEndian.PutUint32(ib[:], k.ChildNum)
	out = append(out, ib[:]...)
	out = append(out, k.Chain[:]...)
	if k.Priv != nil {
		out = append(out, 0)
		out = append(out, pad32(k.Priv)...)
	} else {
		out = append(out, k.pubBytes()...)
	}
	return out
}

func (k *refKey) String() string {
	p := k.payload()
	return refB58Encode(append(p, dsha256(p)[:4]...))
}

// withNet returns a copy carrying the HD version bytes of net ni.
func (k *refKey) withNet(ni int) *refKey {
	n := *k
	if k.Priv != nil {
		n.Version = nets[ni].Params.HDPrivateKeyID
	} else {
		n.Version = nets[ni].Params.HDPublicKeyID
	}
	return &n
}

// refParseExtKey is the strict validator of C05: accept iff the string Base58-decodes
// to exactly 82 bytes, the last four are the double-SHA256 prefix of the rest, and the
// key data is 00||k with 1<=k<=n-1 or a compressed point (02/03||x, x<p, on curve).
func refParseExtKey(s string) (*refKey, error) {
	raw, ok := refB58Decode(s)
	if !ok {
		return nil, errors.New("ref: not base58")
	}
	if len(raw) != 82 {
		return nil, errors.New("ref: length")
	}
	p := raw[:78]
	if string(dsha256(p)[:4]) != string(raw[78:]) {
		return nil, errors.New("ref: checksum")
	}
	k := &refKey{Depth: p[4], ChildNum: binary.BigEndian.Uint32(p[9:13])}
	copy(k.Version[:], p[:4])
	copy(k.ParentFP[:], p[5:9])
	copy(k.Chain[:], p[13:45])
	kd := p[45:78]
	switch kd[0] {
	case 0:
		d := new(big.Int).SetBytes(kd[1:])
		if d.Sign() == 0 || d.Cmp(curveN) >= 0 {
			return nil, errors.New("ref: scalar out of range")
		}
		k.Priv = d
		k.X, k.Y = bchec.S256().ScalarBaseMult(pad32(d))
	case 2, 3:
		x := new(big.Int).SetBytes(kd[1:])
		y, ok := liftX(x)
		if !ok {
			return nil, errors.New("ref: point not on curve")
		}
		if byte(y.Bit(0)) != kd[0]&1 {
			y = new(big.Int).Sub(curveP, y)
		}
		k.X, k.Y = x, y
	default:
		return nil, errors.New("ref: key data prefix")
	}
	return k, nil
}
