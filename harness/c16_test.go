package harness

// C16 Block and transaction wrappers always agree with the wire message they wrap.

import (
	"bufio"
	"bytes"
	"fmt"
	"io"
	"testing"

	"github.com/gcash/bchd/chaincfg/chainhash"
	"github.com/gcash/bchd/wire"
	"github.com/gcash/bchutil"
	"pgregory.net/rapid"
)

type c16TxSpec struct {
	NIn       int    `json:"nin"`
	NOut      int    `json:"nout"`
	ScriptLen int    `json:"script_len"`
	Token     int    `json:"token"` // 0 none; 1 fungible; 2 NFT with commitment; 3 both
	Amount    uint64 `json:"amount"`
	Salt      int    `json:"salt"`
}

type c16Op struct {
	Op string `json:"op"` // tx transactions txhash hash bytes txloc setheight height
	I  int    `json:"i"`
}

// c16Reader wraps src in one of four reader types (a reader with nothing but Read; *bytes.Buffer over src
// itself; *bytes.Reader; a small bufio.Reader).  after() is what the owner of the stream does next: the
// storage is overwritten and a Buffer is reset and refilled.
func c16Reader(src []byte, sel int) (io.Reader, func()) {
	scribble := func() {
		for i := range src {
			src[i] ^= 0x5a
		}
	}
	switch ((sel % 4) + 4) % 4 {
	case 1:
		buf := bytes.NewBuffer(src)
		return buf, func() {
			buf.Reset()
			buf.Write(bytes.Repeat([]byte{0xc3}, len(src)))
			scribble()
		}
	case 2:
		return bytes.NewReader(src), scribble
	case 3:
		return bufio.NewReaderSize(bytes.NewReader(src), 16), scribble
	}
	return plainReader{bytes.NewReader(src)}, scribble
}

type c16Case struct {
	Dup  int         `json:"dup,omitempty"` // >0: the transaction message at place (Dup-1) mod n is listed once more at the end (same object)
	Txs  []c16TxSpec `json:"txs"`
	Ctor int         `json:"ctor"` // 0 NewBlock 1 FromBytes 2 FromReader 3 FromBlockAndBytes
	Ops  []c16Op     `json:"ops"`
}

func buildC16Tx(s c16TxSpec, idx int) *wire.MsgTx {
	tx := wire.NewMsgTx(2)
	tx.LockTime = uint32(idx)
	fill := func(n int, salt int) []byte {
		b := make([]byte, n)
		for i := range b {
			b[i] = byte(i*13 + salt*7 + idx + 1)
		}
		if n > 0 && b[0] == wire.PREFIX_BYTE {
			b[0] = 0x51
		}
		return b
	}
	for i := 0; i < s.NIn; i++ {
		var h chainhash.Hash
		copy(h[:], fill(32, s.Salt+i))
		in := wire.NewTxIn(wire.NewOutPoint(&h, uint32(i)), fill(s.ScriptLen, s.Salt+i+1))
		in.Sequence = uint32(0xffffffff - i)
		tx.AddTxIn(in)
	}
	for i := 0; i < s.NOut; i++ {
		td := wire.TokenData{}
		if s.Token != 0 && i == 0 {
			var cat [32]byte
			copy(cat[:], fill(32, s.Salt+9))
			var amt *uint64
			var com *[]byte
			var capab *byte
			if s.Token == 1 || s.Token == 3 {
				a := s.Amount
				if a == 0 {
					a = 1
				}
				amt = &a
			}
			if s.Token >= 2 {
				c := fill(1+s.Salt%40, s.Salt+3)
				com = &c
				cb := byte(s.Salt % 3)
				capab = &cb
			}
			if p, err := wire.NewTokenData(cat, amt, com, capab); err == nil {
				td = *p
			}
		}
		tx.AddTxOut(wire.NewTxOut(int64(1000*idx+i), fill(s.ScriptLen, s.Salt+i+2), td))
	}
	return tx
}

// plainReader hides every method of the wrapped reader except Read.
type plainReader struct{ r io.Reader }

func (p plainReader) Read(b []byte) (int, error) { return p.r.Read(b) }

func serializeBlock(m *wire.MsgBlock) ([]byte, error) {
	var buf bytes.Buffer
	if err := m.Serialize(&buf); err != nil {
		return nil, err
	}
	return buf.Bytes(), nil
}

func serializeTx(m *wire.MsgTx) ([]byte, error) {
	var buf bytes.Buffer
	if err := m.Serialize(&buf); err != nil {
		return nil, err
	}
	return buf.Bytes(), nil
}

func evalC16(c c16Case, o *Obs) error {
	msg := wire.NewMsgBlock(&wire.BlockHeader{Version: 3, Bits: 0x1d00ffff, Nonce: uint32(len(c.Txs))})
	for i, s := range c.Txs {
		msg.AddTransaction(buildC16Tx(s, i))
	}
	if c.Dup > 0 && len(msg.Transactions) > 0 && len(msg.Transactions) < 300 {
		// the same message object listed a second time (a duplicated last transaction, a template builder reusing one
		// message): two places in the block, two wrappers, each with its own index
		msg.AddTransaction(msg.Transactions[(c.Dup-1)%len(msg.Transactions)])
		o.Class("C16:one-message-object-at-two-places")
	}
	raw, err := serializeBlock(msg)
	if err != nil {
		o.Class("C16:dependency-precondition-failed(serialize)")
		return nil
	}
	// precondition on the dependency: Serialize o Deserialize reproduces the bytes
	var back wire.MsgBlock
	if err := back.Deserialize(bytes.NewReader(raw)); err != nil {
		o.Class("C16:dependency-precondition-failed(deserialize)")
		return nil
	}
	if raw2, err := serializeBlock(&back); err != nil || !bytes.Equal(raw, raw2) {
		o.Class("C16:dependency-precondition-failed(round-trip)")
		return nil
	}
	n := len(msg.Transactions)
	var b *bchutil.Block
	switch c.Ctor {
	case 0:
		if n >= 2 && len(c.Ops)%3 == 0 {
			// the wrapper is made around a message that is still being assembled; the remaining transactions are
			// added to the message before any accessor is called (accessors compute lazily, at first use)
			full := msg.Transactions
			msg.Transactions = append([]*wire.MsgTx{}, full[:n/2]...)
			b = bchutil.NewBlock(msg)
			for _, tx := range full[n/2:] {
				b.MsgBlock().AddTransaction(tx)
			}
			o.Class("C16:message-completed-after-wrapping")
		} else {
			b = bchutil.NewBlock(msg)
		}
	case 1:
		if b, err = bchutil.NewBlockFromBytes(append([]byte{}, raw...)); err != nil {
			return fmt.Errorf("NewBlockFromBytes of a valid block failed: %v", err)
		}
	case 2:
		// a plain reader (no ReadByte, no Peek) that carries this block twice, back to back
		src := append(append([]byte{}, raw...), raw...)
		pr, after := c16Reader(src, len(c.Ops))
		if b, err = bchutil.NewBlockFromReader(pr); err != nil {
			return fmt.Errorf("NewBlockFromReader of a valid block failed: %v", err)
		}
		b2, err := bchutil.NewBlockFromReader(pr)
		if err != nil {
			return fmt.Errorf("a second NewBlockFromReader on the same stream (two blocks back to back) failed: %v", err)
		}
		if got, _ := b2.Bytes(); !bytes.Equal(got, raw) {
			return fmt.Errorf("the second block read from the same stream differs from the first")
		}
		after()
	case 3:
		switch len(c.Ops) % 4 {
		case 0: // the caller has no serialisation at hand: an empty slice, or nil
			b = bchutil.NewBlockFromBlockAndBytes(msg, []byte{})
			o.Class("C16:from-block-and-empty-bytes")
		case 1:
			b = bchutil.NewBlockFromBlockAndBytes(msg, nil)
			o.Class("C16:from-block-and-empty-bytes")
		default:
			b = bchutil.NewBlockFromBlockAndBytes(msg, append([]byte{}, raw...))
		}
	default:
		return hbug("ctor")
	}
	o.Class("C16:ctor=%d", c.Ctor)
	for _, s := range c.Txs {
		if s.Token != 0 {
			o.Class("C16:block-with-token-data")
			break
		}
	}
	wm := b.MsgBlock()
	if wm == nil || len(wm.Transactions) != n {
		return fmt.Errorf("MsgBlock() has %d transactions, want %d", len(wm.Transactions), n)
	}
	if c.Ctor == 0 || c.Ctor == 3 {
		if wm != msg {
			return fmt.Errorf("MsgBlock() is not the wrapped message")
		}
	}
	wantHash := wm.BlockHash()
	if wantHash != msg.BlockHash() {
		return fmt.Errorf("wrapped message hashes differently from the original")
	}
	txHash := make([]chainhash.Hash, n)
	txRaw := make([][]byte, n)
	for i, t := range wm.Transactions {
		txHash[i] = t.TxHash()
		if txRaw[i], err = serializeTx(t); err != nil {
			return hbug("tx serialize: %v", err)
		}
	}
	seen := make([]*bchutil.Tx, n)
	checkTx := func(i int, t *bchutil.Tx, via string) error {
		if t == nil {
			return fmt.Errorf("%s: wrapped transaction %d is nil", via, i)
		}
		if t.MsgTx() != wm.Transactions[i] {
			return fmt.Errorf("%s: wrapped transaction %d does not wrap MsgBlock().Transactions[%d]", via, i, i)
		}
		if t.Index() != i {
			return fmt.Errorf("%s: wrapped transaction %d reports Index() = %d", via, i, t.Index())
		}
		if *t.Hash() != txHash[i] {
			return fmt.Errorf("%s: wrapped transaction %d Hash() = %v, fresh computation %v", via, i, t.Hash(), txHash[i])
		}
		if seen[i] != nil && seen[i] != t {
			return fmt.Errorf("%s: a different object is returned for transaction %d than by an earlier call", via, i)
		}
		seen[i] = t
		return nil
	}
	var hashPtr *chainhash.Hash
	var bytesPtr *byte
	height := int32(-1) // the documented "unknown" height (literal on purpose: the constant is part of what is checked)
	sawTx, sawTransactions, sparse, oor := false, false, false, false
	var siblings []*bchutil.Block
	var siblingRaw [][]byte
	for step, op := range c.Ops {
		via := fmt.Sprintf("block(%d txs, ctor %d) step %d %s(%d)", n, c.Ctor, step, op.Op, op.I)
		switch op.Op {
		case "tx":
			t, err := b.Tx(op.I)
			if op.I < 0 || op.I >= n {
				oor = true
				if _, ok := err.(bchutil.OutOfRangeError); !ok || t != nil {
					return fmt.Errorf("%s: out-of-range index returned (%v, %v), want OutOfRangeError", via, t, err)
				}
				break
			}
			if err != nil {
				return fmt.Errorf("%s: %v", via, err)
			}
			if err := checkTx(op.I, t, via); err != nil {
				return err
			}
			sawTx = true
		case "txhash":
			h, err := b.TxHash(op.I)
			if op.I < 0 || op.I >= n {
				oor = true
				if _, ok := err.(bchutil.OutOfRangeError); !ok || h != nil {
					return fmt.Errorf("%s: out-of-range index returned (%v, %v), want OutOfRangeError", via, h, err)
				}
				break
			}
			if err != nil || *h != txHash[op.I] {
				return fmt.Errorf("%s = %v, %v; fresh computation %v", via, h, err, txHash[op.I])
			}
			// repeated calls return the same object - the cached hash of the wrapped transaction - not copies
			if h2, _ := b.TxHash(op.I); h2 != h {
				return fmt.Errorf("%s: a second call returns another hash object", via)
			}
			if t, err := b.Tx(op.I); err != nil || t.Hash() != h {
				return fmt.Errorf("%s: Tx(%d).Hash() is not the hash object TxHash(%d) returned", via, op.I, op.I)
			}
			sawTx = true
		case "transactions":
			ts := b.Transactions()
			if len(ts) != n {
				return fmt.Errorf("%s: %d wrapped transactions, want %d", via, len(ts), n)
			}
			for i, t := range ts {
				if err := checkTx(i, t, via); err != nil {
					return err
				}
			}
			if sawTx && !sawTransactions {
				sparse = true
			}
			sawTransactions = true
		case "hash":
			h := b.Hash()
			if h == nil || *h != wantHash {
				return fmt.Errorf("%s = %v, fresh computation %v", via, h, wantHash)
			}
			if hashPtr != nil && hashPtr != h {
				return fmt.Errorf("%s: repeated call returned a different object", via)
			}
			hashPtr = h
		case "bytes":
			got, err := b.Bytes()
			if err != nil || !bytes.Equal(got, raw) {
				return fmt.Errorf("%s: %d bytes (err %v) differ from a fresh serialisation (%d bytes)", via, len(got), err, len(raw))
			}
			if len(got) > 0 {
				if bytesPtr != nil && bytesPtr != &got[0] {
					return fmt.Errorf("%s: repeated call returned a different buffer", via)
				}
				bytesPtr = &got[0]
			}
		case "txloc":
			locs, err := b.TxLoc()
			if err != nil || len(locs) != n {
				return fmt.Errorf("%s: %d locations, err %v", via, len(locs), err)
			}
			full, _ := b.Bytes()
			for i, l := range locs {
				if l.TxStart < 0 || l.TxLen < 0 || l.TxStart+l.TxLen > len(full) || !bytes.Equal(full[l.TxStart:l.TxStart+l.TxLen], txRaw[i]) {
					return fmt.Errorf("%s: location %d (%d,%d) does not delimit transaction %d's serialisation", via, i, l.TxStart, l.TxLen, i)
				}
			}
			for i := range locs { // the returned list is the caller's (e.g. to turn it into file offsets)
				locs[i].TxStart += 1000003
				locs[i].TxLen = -1
			}
		case "sibling":
			// another block of similar size is created and used in between: blocks must not share state
			sm := wire.NewMsgBlock(&wire.BlockHeader{Version: 4, Bits: 0x1d00ffff, Nonce: uint32(op.I)})
			for i, sp := range c.Txs {
				sp.Salt += 1 + op.I%7
				sm.AddTransaction(buildC16Tx(sp, i))
			}
			sb := bchutil.NewBlock(sm)
			sraw, err := serializeBlock(sm)
			if err != nil {
				return hbug("sibling serialize: %v", err)
			}
			got, err := sb.Bytes()
			if err != nil || !bytes.Equal(got, sraw) {
				return fmt.Errorf("%s: sibling block's Bytes() differ from a fresh serialisation", via)
			}
			sb.TxLoc()
			sb.Hash()
			sb.Transactions()
			siblings = append(siblings, sb)
			siblingRaw = append(siblingRaw, sraw)
			o.Class("C16:sibling-block-interleaved")
		case "setheight":
			b.SetHeight(int32(op.I))
			height = int32(op.I)
		case "height":
		default:
			return hbug("unknown op %q", op.Op)
		}
		if b.Height() != height {
			return fmt.Errorf("%s: Height() = %d, want %d", via, b.Height(), height)
		}
	}
	for i, sb := range siblings {
		if got, err := sb.Bytes(); err != nil || !bytes.Equal(got, siblingRaw[i]) {
			return fmt.Errorf("sibling block %d: Bytes() changed after the other block was used", i)
		}
	}
	// final: everything, then re-parse
	full, err := b.Bytes()
	if err != nil || !bytes.Equal(full, raw) {
		return fmt.Errorf("final Bytes() differ from a fresh serialisation")
	}
	if *b.Hash() != wantHash {
		return fmt.Errorf("final Hash() differs")
	}
	for i, t := range b.Transactions() {
		if err := checkTx(i, t, "final Transactions()"); err != nil {
			return err
		}
	}
	rb, err := bchutil.NewBlockFromBytes(full)
	if err != nil {
		return fmt.Errorf("block does not re-parse from its bytes: %v", err)
	}
	rbytes, _ := rb.Bytes()
	if !bytes.Equal(rbytes, full) || *rb.Hash() != wantHash || len(rb.Transactions()) != n {
		return fmt.Errorf("re-parsed block differs (bytes/hash/transaction count)")
	}
	for i := 0; i < n; i++ {
		h, err := rb.TxHash(i)
		if err != nil || *h != txHash[i] {
			return fmt.Errorf("re-parsed block: transaction %d hash differs", i)
		}
	}
	if (sparse || oor) && n >= 2 {
		o.NT()
	}
	if sparse {
		o.Class("C16:sparse-cache-then-all")
	}
	if oor {
		o.Class("C16:out-of-range-index")
	}
	if n == 0 {
		o.Class("C16:empty-block")
	}
	return nil
}

func genC16(t *rapid.T) c16Case {
	c := c16Case{Ctor: rapid.IntRange(0, 3).Draw(t, "ctor")}
	var n int
	switch rapid.IntRange(0, 5).Draw(t, "ncls") {
	case 0:
		n = 0
	case 1:
		n = rapid.IntRange(10, 40).Draw(t, "nbig")
		if rapid.IntRange(0, 3).Draw(t, "huge") == 0 { // transaction count needs a 3-byte CompactSize
			n = rapid.IntRange(250, 260).Draw(t, "nhuge")
		}
		if rapid.IntRange(0, 3).Draw(t, "wordsized") == 0 { // counts on and around machine-word multiples (bitmaps, slabs)
			n = rapid.SampledFrom([]int{31, 32, 33, 63, 64, 65, 127, 128, 129, 192, 256}).Draw(t, "nword")
		}
	default:
		n = rapid.IntRange(1, 8).Draw(t, "n")
	}
	if rapid.IntRange(0, 9).Draw(t, "dup") == 0 {
		c.Dup = rapid.IntRange(1, 9).Draw(t, "dupwhich")
	}
	withTokens := rapid.Bool().Draw(t, "tokens")
	bare := rapid.IntRange(0, 7).Draw(t, "bare") == 0 // a block of the smallest transactions there are (no inputs, no outputs: 10 bytes each)
	if n >= 10 && rapid.IntRange(0, 7).Draw(t, "thousands") == 0 {
		// thousands of transactions, as real blocks have: counts on and around the powers of two where a size class may change
		n = rapid.SampledFrom([]int{511, 512, 513, 1023, 1024, 1025, 2047, 2048, 2049, 3000, 4095, 4096, 4097, 8193, 10000}).Draw(t, "nthousands")
		bare = true
	}
	for i := 0; i < n; i++ {
		if bare {
			c.Txs = append(c.Txs, c16TxSpec{})
			continue
		}
		s := c16TxSpec{NIn: rapid.IntRange(1, 4).Draw(t, "nin"), NOut: rapid.IntRange(1, 4).Draw(t, "nout"),
			ScriptLen: rapid.IntRange(0, 80).Draw(t, "slen"), Salt: rapid.IntRange(0, 250).Draw(t, "salt")}
		if withTokens && rapid.Bool().Draw(t, "tok") {
			s.Token = rapid.IntRange(1, 3).Draw(t, "tokkind")
			s.Amount = rapid.SampledFrom([]uint64{1, 100, 252, 253, 65535, 65536, 1 << 40}).Draw(t, "amt")
		}
		c.Txs = append(c.Txs, s)
	}
	idx := func() int {
		switch rapid.IntRange(0, 5).Draw(t, "icls") {
		case 0:
			return rapid.SampledFrom([]int{-2147483648, -1, n, n + 1, 2147483647, 1 << 32, 1<<32 + 1, 1<<32 + n - 1, -(1 << 32), -(1 << 32) + 1, 1<<63 - 1, -1 << 63, -1<<63 + 1}).Draw(t, "ioor")
		default:
			if n == 0 {
				return 0
			}
			return rapid.IntRange(0, n-1).Draw(t, "i")
		}
	}
	nops := rapid.IntRange(1, 30).Draw(t, "nops")
	for i := 0; i < nops; i++ {
		switch rapid.IntRange(0, 11).Draw(t, "op") {
		case 0, 1, 2, 3:
			c.Ops = append(c.Ops, c16Op{"tx", idx()})
		case 4, 5:
			c.Ops = append(c.Ops, c16Op{"txhash", idx()})
		case 6:
			c.Ops = append(c.Ops, c16Op{"transactions", 0})
		case 7:
			c.Ops = append(c.Ops, c16Op{"hash", 0})
		case 8:
			c.Ops = append(c.Ops, c16Op{"bytes", 0})
		case 9:
			c.Ops = append(c.Ops, c16Op{"txloc", 0})
		case 10:
			if rapid.Bool().Draw(t, "sib") {
				c.Ops = append(c.Ops, c16Op{"sibling", rapid.IntRange(0, 50).Draw(t, "sibsalt")})
			} else {
				c.Ops = append(c.Ops, c16Op{"setheight", rapid.IntRange(-5, 1000000).Draw(t, "h")})
			}
		default:
			c.Ops = append(c.Ops, c16Op{"height", 0})
		}
	}
	return c
}

var kC16 = register(&Kind[c16Case]{Prop: "C16", Name: "block", Gen: genC16, Eval: evalC16})

// ---- kind: bytes that the wire decoder accepts but would not write that way ---------------------
// A block (or transaction) built from bytes keeps those bytes.  If they are a non-canonical rendering - here:
// an output script that looks like a CashToken prefix with an all-zero category, which the decoder takes for
// token data and the encoder then drops - the wrapper must still be consistent with ITS bytes: Bytes() is
// the input, the transaction locations delimit the transactions inside it, and re-parsing gives the same block.

type c16Raw struct {
	NTx   int `json:"ntx"`
	Which int `json:"which"` // transaction that carries the odd output
	Salt  int `json:"salt"`
}

func evalC16Raw(c c16Raw, o *Obs) error {
	if c.NTx < 1 || c.NTx > 50 {
		return hbug("ntx")
	}
	msg := wire.NewMsgBlock(&wire.BlockHeader{Version: 3, Bits: 0x1d00ffff, Nonce: uint32(c.Salt)})
	for i := 0; i < c.NTx; i++ {
		tx := buildC16Tx(c16TxSpec{NIn: 1, NOut: 2, ScriptLen: 10, Salt: c.Salt + i}, i)
		if i == c.Which%c.NTx {
			odd := append(append([]byte{wire.PREFIX_BYTE}, make([]byte, 32)...), 0x10, 0x01, 0x51, 0x52)
			tx.AddTxOut(wire.NewTxOut(4242, odd, wire.TokenData{}))
		}
		msg.AddTransaction(tx)
	}
	raw, err := serializeBlock(msg)
	if err != nil {
		return hbug("serialize: %v", err)
	}
	b, err := bchutil.NewBlockFromBytes(append([]byte{}, raw...))
	if err != nil {
		o.Class("C16:noncanonical-rejected-by-the-decoder")
		return nil
	}
	o.NT()
	o.Class("C16:noncanonical-bytes-accepted")
	if fresh, err := serializeBlock(b.MsgBlock()); err == nil && !bytes.Equal(fresh, raw) {
		o.Class("C16:noncanonical-bytes-differ-from-a-fresh-serialisation")
	}
	got, err := b.Bytes()
	if err != nil || !bytes.Equal(got, raw) {
		return fmt.Errorf("NewBlockFromBytes(%d bytes).Bytes() returns %d bytes (err %v): not the bytes the block was made from", len(raw), len(got), err)
	}
	locs, err := b.TxLoc()
	if err != nil || len(locs) != c.NTx {
		return fmt.Errorf("TxLoc() on a block made from %d accepted bytes: %d locations, err %v", len(raw), len(locs), err)
	}
	for i, l := range locs {
		if l.TxStart < 0 || l.TxLen <= 0 || l.TxStart+l.TxLen > len(raw) {
			return fmt.Errorf("TxLoc()[%d] = (%d,%d) lies outside the %d bytes of the block", i, l.TxStart, l.TxLen, len(raw))
		}
		t, err := bchutil.NewTxFromBytes(raw[l.TxStart : l.TxStart+l.TxLen])
		bt, _ := b.Tx(i)
		if err != nil || bt == nil || *t.Hash() != *bt.Hash() {
			return fmt.Errorf("TxLoc()[%d] = (%d,%d) does not delimit transaction %d inside the block's bytes (err %v)", i, l.TxStart, l.TxLen, i, err)
		}
	}
	b2, err := bchutil.NewBlockFromBytes(got)
	if err != nil || *b2.Hash() != *b.Hash() || len(b2.Transactions()) != c.NTx {
		return fmt.Errorf("the block does not re-parse from its own Bytes() (err %v)", err)
	}
	return nil
}

var kC16Raw = register(&Kind[c16Raw]{Prop: "C16", Name: "noncanonical", Eval: evalC16Raw,
	Gen: func(t *rapid.T) c16Raw {
		return c16Raw{NTx: rapid.IntRange(1, 12).Draw(t, "ntx"), Which: rapid.IntRange(0, 11).Draw(t, "which"), Salt: rapid.IntRange(0, 200).Draw(t, "salt")}
	}})

// ---- kind: tx -----------------------------------------------------------------------

type c16TxCase struct {
	Spec  c16TxSpec `json:"tx"`
	Ctor  int       `json:"ctor"`  // 0 NewTx 1 FromBytes 2 FromReader
	Trail HexBytes  `json:"trail"` // bytes following the serialised transaction in the input (ctor 1, 2)
	Ops   []c16Op   `json:"ops"`   // hash index setindex msgtx
}

func evalC16Tx(c c16TxCase, o *Obs) error {
	m := buildC16Tx(c.Spec, 5)
	raw, err := serializeTx(m)
	if err != nil {
		return nil
	}
	var back wire.MsgTx
	if err := back.Deserialize(bytes.NewReader(raw)); err != nil {
		o.Class("C16:dependency-precondition-failed(tx)")
		return nil
	}
	if raw2, _ := serializeTx(&back); !bytes.Equal(raw, raw2) {
		o.Class("C16:dependency-precondition-failed(tx)")
		return nil
	}
	var t *bchutil.Tx
	switch c.Ctor {
	case 0:
		t = bchutil.NewTx(m)
	case 1:
		if t, err = bchutil.NewTxFromBytes(append(append([]byte{}, raw...), c.Trail...)); err != nil {
			return fmt.Errorf("NewTxFromBytes of a valid transaction (+%d trailing bytes) failed: %v", len(c.Trail), err)
		}
	default:
		src := append(append(append([]byte{}, raw...), raw...), c.Trail...)
		pr, after := c16Reader(src, len(c.Ops))
		if t, err = bchutil.NewTxFromReader(pr); err != nil {
			return fmt.Errorf("NewTxFromReader of a valid transaction failed: %v", err)
		}
		t2, err := bchutil.NewTxFromReader(pr)
		if err != nil || *t2.Hash() != m.TxHash() {
			return fmt.Errorf("a second NewTxFromReader on the same stream (two transactions back to back) fails or reads another transaction: %v", err)
		}
		after()
	}
	if len(c.Trail) > 0 && c.Ctor != 0 {
		o.Class("C16:tx-input-with-trailing-bytes")
	}
	o.NT()
	o.Class("C16:tx-ctor=%d", c.Ctor)
	want := m.TxHash()
	idx := -1 // the documented "unknown" index (literal on purpose)
	var hp *chainhash.Hash
	for step, op := range append(c.Ops, c16Op{"hash", 0}, c16Op{"msgtx", 0}) {
		switch op.Op {
		case "hash":
			h := t.Hash()
			if *h != want {
				return fmt.Errorf("tx step %d: Hash() = %v, fresh %v", step, h, want)
			}
			if hp != nil && hp != h {
				return fmt.Errorf("tx step %d: repeated Hash() returned a different object", step)
			}
			hp = h
		case "setindex":
			t.SetIndex(op.I)
			idx = op.I
		case "msgtx":
			got, _ := serializeTx(t.MsgTx())
			if !bytes.Equal(got, raw) || (c.Ctor == 0 && t.MsgTx() != m) {
				return fmt.Errorf("tx step %d: MsgTx() does not serialise to the original bytes", step)
			}
		}
		if t.Index() != idx {
			return fmt.Errorf("tx step %d: Index() = %d, want %d", step, t.Index(), idx)
		}
	}
	if c.Ctor == 0 && c.Spec.Salt%2 == 0 {
		// the message goes on to another life (a miner's extra nonce): wrappers made from now on see what it is now
		m.LockTime ^= 0x5a5a5a
		if t2 := bchutil.NewTx(m); *t2.Hash() != m.TxHash() {
			return fmt.Errorf("a wrapper made after the message was changed reports hash %v, the message hashes to %v", t2.Hash(), m.TxHash())
		}
		mb := wire.NewMsgBlock(&wire.BlockHeader{Version: 3})
		mb.AddTransaction(m)
		if h, err := bchutil.NewBlock(mb).TxHash(0); err != nil || *h != m.TxHash() {
			return fmt.Errorf("a block wrapper made after the message was changed reports transaction hash %v (err %v), the message hashes to %v", h, err, m.TxHash())
		}
		o.Class("C16:tx-message-wrapped-again-after-a-change")
	}
	return nil
}

var kC16Tx = register(&Kind[c16TxCase]{
	Prop: "C16", Name: "tx",
	Gen: func(t *rapid.T) c16TxCase {
		c := c16TxCase{Ctor: rapid.IntRange(0, 2).Draw(t, "ctor")}
		c.Spec = c16TxSpec{NIn: rapid.IntRange(0, 4).Draw(t, "nin"), NOut: rapid.IntRange(0, 4).Draw(t, "nout"),
			ScriptLen: rapid.IntRange(0, 80).Draw(t, "slen"), Salt: rapid.IntRange(0, 250).Draw(t, "salt"),
			Token: rapid.IntRange(0, 3).Draw(t, "tok"), Amount: rapid.SampledFrom([]uint64{1, 252, 65535}).Draw(t, "amt")}
		for i := rapid.IntRange(0, 6).Draw(t, "nops"); i > 0; i-- {
			c.Ops = append(c.Ops, c16Op{rapid.SampledFrom([]string{"hash", "setindex", "msgtx"}).Draw(t, "op"), rapid.IntRange(-1, 50).Draw(t, "i")})
		}
		if rapid.IntRange(0, 2).Draw(t, "trail") == 0 {
			c.Trail = genBytes(t, "trailb", 1, 40)
		}
		return c
	},
	Eval: evalC16Tx,
})

func TestC16(t *testing.T) {
	propTest(t, "C16", func(ev *Ev) {
		ev.Rule("blocks of 0..40, 250..260, word-multiple (31..256) and 511..10000 transactions (the thousands as bare 10-byte transactions; otherwise 1..4 inputs/outputs, scripts 0..80 bytes, optional CashToken data built with "+
			"wire.NewTokenData) x 4 constructors x accessor histories (<=30) of Tx(i), TxHash(i), Transactions(), Hash(), Bytes(), "+
			"TxLoc(), SetHeight/Height with i in {-2^31,-1,0..n-1,n,n+1,2^31-1}. After each call its result is compared with a fresh "+
			"computation from MsgBlock(): hash, bytes, MsgTx pointer identity, Index()==i, tx hash, same object on repeated calls, "+
			"OutOfRangeError for out-of-range indices, TxLoc slices == fresh tx serialisation; at the end the block is re-parsed "+
			"from its bytes. Transactions: NewTx/NewTxFromBytes/NewTxFromReader with Hash/SetIndex/MsgTx sequences. Only blocks that "+
			"bchd's own Serialize o Deserialize reproduces byte-for-byte are used (others counted as dependency-precondition-failed). "+
			"Non-trivial = n>=2 and the history interleaves Tx(i) before Transactions() or uses an out-of-range index.",
			"bchd wire serialisation / hashing is the definition of 'fresh computation'")
		kC16.Run(t, ev, perShard(pick(3000, 1500000)))
		kC16Tx.Run(t, ev, perShard(pick(1500, 750000)))
		kC16Raw.Run(t, ev, perShard(pick(200, 20000)))
		ev.requireClasses("C16:ctor=0", "C16:ctor=1", "C16:ctor=2", "C16:ctor=3", "C16:sparse-cache-then-all",
			"C16:out-of-range-index", "C16:empty-block", "C16:block-with-token-data", "C16:tx-ctor=1", "C16:sibling-block-interleaved", "C16:tx-input-with-trailing-bytes")
	})
}
