package harness

// C17 Amounts convert between BCH floats, satoshi integers and text without loss.

import (
	"fmt"
	"math"
	"math/big"
	"runtime"
	"runtime/debug"
	"strings"
	"sync"
	"testing"

	"github.com/gcash/bchutil"
	"pgregory.net/rapid"
)

const maxSat = int64(2100000000000000)

// roundHalfAway returns the integer nearest to the (exact value of the) float64 p,
// ties away from zero.  p must be finite.
func roundHalfAway(p float64) *big.Int {
	r := new(big.Rat).SetFloat64(p)
	neg := r.Sign() < 0
	num := new(big.Int).Abs(r.Num())
	den := r.Denom()
	// floor((2*num + den) / (2*den))
	n2 := new(big.Int).Lsh(num, 1)
	n2.Add(n2, den)
	d2 := new(big.Int).Lsh(den, 1)
	q := new(big.Int).Quo(n2, d2)
	if neg {
		q.Neg(q)
	}
	return q
}

func pow10Rat(e int) *big.Rat {
	p := new(big.Int).Exp(big.NewInt(10), big.NewInt(int64(abs(e))), nil)
	if e >= 0 {
		return new(big.Rat).SetInt(p)
	}
	return new(big.Rat).SetFrac(big.NewInt(1), p)
}

func abs(x int) int {
	if x < 0 {
		return -x
	}
	return x
}

func unitLabel(u int) string {
	switch u {
	case 6:
		return "MBCH"
	case 3:
		return "kBCH"
	case 0:
		return "BCH"
	case -3:
		return "mBCH"
	case -6:
		return "μBCH"
	case -8:
		return "Satoshi"
	}
	return fmt.Sprintf("1e%d BCH", u)
}

// ---- kind: newamount ------------------------------------------------------------------

type c17Float struct {
	Bits uint64 `json:"bits"`
	Text string `json:"float"`
}

func mkFloat(f float64) c17Float { return c17Float{math.Float64bits(f), fmt.Sprintf("%v", f)} }

func evalC17New(c c17Float, o *Obs) error {
	f := math.Float64frombits(c.Bits)
	a, err := bchutil.NewAmount(f)
	if math.IsNaN(f) || math.IsInf(f, 0) {
		o.Class("C17:new-nan-inf")
		o.NT()
		if err == nil {
			return fmt.Errorf("NewAmount(%v) accepted", f)
		}
		return nil
	}
	p := f * 1e8 // the single floating-point rounding the statement allows
	if math.Abs(p) >= 1<<62 {
		o.Class("C17:new-out-of-domain")
		return nil
	}
	if err != nil {
		return fmt.Errorf("NewAmount(%v) failed: %v", f, err)
	}
	want := roundHalfAway(p)
	if p != math.Trunc(p) {
		o.NT()
		o.Class("C17:new-non-integer-product")
	} else {
		o.Class("C17:new-integer-product")
		if math.Abs(p) >= 1<<52 {
			o.Class("C17:new-integer-product>=2^52")
			o.NT()
		}
	}
	if want.Cmp(big.NewInt(int64(a))) != 0 {
		return fmt.Errorf("NewAmount(%v) = %d satoshi; f*1e8 = %v (exactly %s), nearest whole number with ties away from zero is %s",
			f, int64(a), p, new(big.Rat).SetFloat64(p).FloatString(20), want)
	}
	b, err := bchutil.NewAmount(-f)
	if err != nil || int64(b) != -int64(a) {
		return fmt.Errorf("NewAmount(%v) = %d but NewAmount(%v) = %d (not odd-symmetric)", f, int64(a), -f, int64(b))
	}
	return nil
}

func genFloat(t *rapid.T, label string) float64 {
	sign := 1.0
	if rapid.Bool().Draw(t, label+"_neg") {
		sign = -1
	}
	switch rapid.IntRange(0, 11).Draw(t, label+"_cls") {
	case 0, 1: // exact decimal amounts a/1e8
		a := rapid.Int64Range(0, maxSat).Draw(t, label+"_a")
		return sign * float64(a) / 1e8
	case 2: // the same +- a few ulps
		a := rapid.Int64Range(0, maxSat).Draw(t, label+"_a")
		f := float64(a) / 1e8
		for i := rapid.IntRange(1, 3).Draw(t, label+"_ulps"); i > 0; i-- {
			f = math.Nextafter(f, f+sign)
		}
		return f
	case 3: // tie neighbourhood (a+0.5)/1e8
		a := rapid.Int64Range(0, 1<<40).Draw(t, label+"_a")
		f := (float64(a) + 0.5) / 1e8
		for i := rapid.IntRange(0, 2).Draw(t, label+"_ulps"); i > 0; i-- {
			f = math.Nextafter(f, f+sign)
		}
		return sign * f
	case 4: // products forced near 0.5
		p := rapid.SampledFrom([]float64{0.49999999999999994, 0.5, 0.5000000000000001, 1.4999999999999998, 1.5, 2.5}).Draw(t, label+"_p")
		f := p / 1e8
		// search the neighbourhood for an f whose float product is exactly p
		for d := -8; d <= 8; d++ {
			g := f
			for i := 0; i < abs(d); i++ {
				if d < 0 {
					g = math.Nextafter(g, 0)
				} else {
					g = math.Nextafter(g, 1)
				}
			}
			if g*1e8 == p {
				return sign * g
			}
		}
		return sign * f
	case 5: // odd integer products in [2^52, 2^53)
		p := float64(int64(1)<<52 + 2*rapid.Int64Range(0, 1<<51-1).Draw(t, label+"_odd") + 1)
		f := p / 1e8
		for i := 0; i < 6 && f*1e8 != p; i++ {
			f = math.Nextafter(f, math.Inf(1))
		}
		return sign * f
	case 6: // integer products in [2^53, 2^62)
		e := rapid.IntRange(53, 61).Draw(t, label+"_e")
		p := math.Ldexp(1+rapid.Float64Range(0, 1).Draw(t, label+"_m"), e)
		return sign * p / 1e8
	case 7: // specials
		return rapid.SampledFrom([]float64{0, math.Copysign(0, -1), math.SmallestNonzeroFloat64, 5e-324 * 1000, math.NaN(), math.Inf(1), math.Inf(-1),
			1e-9, 4.9e-9, 5e-9, 5.1e-9, 21e6, 21e6 + 1e-8, math.MaxFloat64}).Draw(t, label+"_sp")
	case 8: // random bit patterns
		return math.Float64frombits(rapid.Uint64().Draw(t, label+"_bits"))
	default: // uniform magnitude
		return sign * rapid.Float64Range(0, 22e6).Draw(t, label+"_u")
	}
}

var kC17New = register(&Kind[c17Float]{
	Prop: "C17", Name: "newamount",
	Gen:  func(t *rapid.T) c17Float { return mkFloat(genFloat(t, "f")) },
	Eval: evalC17New,
})

// ---- kind: monotone --------------------------------------------------------------------

type c17Pair struct {
	A c17Float `json:"a"`
	B c17Float `json:"b"`
}

var kC17Mono = register(&Kind[c17Pair]{
	Prop: "C17", Name: "monotone",
	Gen: func(t *rapid.T) c17Pair {
		a := genFloat(t, "a")
		var b float64
		if rapid.Bool().Draw(t, "near") && !math.IsNaN(a) && !math.IsInf(a, 0) {
			b = a
			for i := rapid.IntRange(0, 4).Draw(t, "steps"); i > 0; i-- {
				b = math.Nextafter(b, math.Inf(1))
			}
		} else {
			b = genFloat(t, "b")
		}
		return c17Pair{mkFloat(a), mkFloat(b)}
	},
	Eval: func(c c17Pair, o *Obs) error {
		f1, f2 := math.Float64frombits(c.A.Bits), math.Float64frombits(c.B.Bits)
		if math.IsNaN(f1) || math.IsNaN(f2) || math.IsInf(f1, 0) || math.IsInf(f2, 0) ||
			math.Abs(f1*1e8) >= 1<<62 || math.Abs(f2*1e8) >= 1<<62 {
			return nil
		}
		if f1 > f2 {
			f1, f2 = f2, f1
		}
		a1, e1 := bchutil.NewAmount(f1)
		a2, e2 := bchutil.NewAmount(f2)
		if e1 != nil || e2 != nil {
			return fmt.Errorf("NewAmount failed on finite input: %v %v", e1, e2)
		}
		if f1 != f2 {
			o.NT()
		}
		o.Class("C17:monotone")
		if a1 > a2 {
			return fmt.Errorf("NewAmount is not monotone: f1=%v -> %d, f2=%v -> %d", f1, int64(a1), f2, int64(a2))
		}
		return nil
	},
})

// ---- kind: units (integer amounts) ------------------------------------------------------

type c17Unit struct {
	A int64 `json:"satoshi"`
	U int   `json:"unit"`
}

func evalC17Unit(c c17Unit, o *Obs) error {
	if c.A > maxSat || c.A < -maxSat || c.U < -12 || c.U > 12 {
		return hbug("out of domain")
	}
	a := bchutil.Amount(c.A)
	u := bchutil.AmountUnit(c.U)
	if c.A >= 1e8 || c.A <= -1e8 {
		o.NT()
	}
	o.Class("C17:unit=%d", c.U)
	exact := new(big.Rat).Mul(new(big.Rat).SetInt64(c.A), pow10Rat(-(c.U + 8)))
	// correctly rounded quotient
	want, _ := exact.Float64()
	if got := a.ToUnit(u); got != want {
		return fmt.Errorf("Amount(%d).ToUnit(%d) = %v (%#x), correctly rounded quotient is %v (%#x)", c.A, c.U, got, math.Float64bits(got), want, math.Float64bits(want))
	}
	// ToBCH is the conversion to the BCH unit: the correctly rounded quotient as well, not merely something that
	// happens to round-trip
	if wantBCH, _ := new(big.Rat).Mul(new(big.Rat).SetInt64(c.A), pow10Rat(-8)).Float64(); a.ToBCH() != wantBCH {
		return fmt.Errorf("Amount(%d).ToBCH() = %v (%#x), correctly rounded quotient is %v (%#x)", c.A, a.ToBCH(), math.Float64bits(a.ToBCH()), wantBCH, math.Float64bits(wantBCH))
	}
	// printed text (results are kept while further amounts are formatted: strings are values)
	text := a.Format(u)
	keep := strings.Clone(text)
	for k := 1; k <= 3; k++ {
		bchutil.Amount(c.A/int64(k+1) + int64(k)).Format(bchutil.AmountUnit(-12 + (c.U+12+k*5)%25))
		bchutil.Amount(-c.A).Format(u)
	}
	if text != keep {
		return fmt.Errorf("Amount(%d).Format(%d) returned %q, which reads %q after other amounts were formatted", c.A, c.U, keep, text)
	}
	label := " " + unitLabel(c.U)
	if u.String() != unitLabel(c.U) {
		return fmt.Errorf("AmountUnit(%d).String() = %q, want %q", c.U, u.String(), unitLabel(c.U))
	}
	if !strings.HasSuffix(text, label) {
		return fmt.Errorf("Amount(%d).Format(%d) = %q does not end with the unit label %q", c.A, c.U, text, label)
	}
	num := strings.TrimSuffix(text, label)
	if strings.ContainsAny(num, "eE ") || num == "" {
		return fmt.Errorf("Amount(%d).Format(%d) = %q: number part is not plain decimal text", c.A, c.U, text)
	}
	parsed, ok := new(big.Rat).SetString(num)
	if !ok {
		return fmt.Errorf("Amount(%d).Format(%d) = %q: cannot parse the number", c.A, c.U, text)
	}
	if parsed.Cmp(exact) != 0 {
		return fmt.Errorf("Amount(%d).Format(%d) = %q denotes %s, but amount x 10^-(unit+8) is exactly %s", c.A, c.U, text,
			parsed.FloatString(12), exact.FloatString(12))
	}
	if c.U == 0 {
		if s := a.String(); s != text {
			return fmt.Errorf("Amount(%d).String() = %q, Format(AmountBCH) = %q", c.A, s, text)
		}
		back, err := bchutil.NewAmount(a.ToBCH())
		if err != nil || back != a {
			return fmt.Errorf("NewAmount(Amount(%d).ToBCH()) = %d (err %v)", c.A, int64(back), err)
		}
	}
	return nil
}

func genSat(t *rapid.T) int64 {
	var a int64
	switch rapid.IntRange(0, 7).Draw(t, "a_cls") {
	case 0:
		a = maxSat - rapid.Int64Range(0, 1000).Draw(t, "a_cap")
	case 1: // powers of ten +-1
		e := rapid.IntRange(0, 15).Draw(t, "a_e")
		p := int64(1)
		for i := 0; i < e; i++ {
			p *= 10
		}
		a = p + int64(rapid.IntRange(-1, 1).Draw(t, "a_d"))
	case 2: // 9...9 patterns
		e := rapid.IntRange(1, 15).Draw(t, "a_e")
		p := int64(1)
		for i := 0; i < e; i++ {
			p *= 10
		}
		a = p - 1
		if a > maxSat {
			a = 1999999999999999
		}
	case 3:
		a = rapid.Int64Range(0, 100000).Draw(t, "a_small")
	case 4: // above 2^50 (sub-satoshi units leave the exact-integer range of float64)
		a = rapid.Int64Range(1<<50, maxSat).Draw(t, "a_big")
	default:
		a = rapid.Int64Range(0, maxSat).Draw(t, "a_u")
	}
	if a > maxSat {
		a = maxSat
	}
	if rapid.IntRange(0, 3).Draw(t, "a_neg") == 0 {
		a = -a
	}
	return a
}

var kC17Unit = register(&Kind[c17Unit]{
	Prop: "C17", Name: "units",
	Gen: func(t *rapid.T) c17Unit {
		u := rapid.IntRange(-12, 12).Draw(t, "u")
		if rapid.Bool().Draw(t, "named") {
			u = rapid.SampledFrom([]int{6, 3, 0, -3, -6, -8}).Draw(t, "un")
		}
		return c17Unit{A: genSat(t), U: u}
	},
	Eval: evalC17Unit,
})

// ---- kind: mulf64 ------------------------------------------------------------------------

type c17Mul struct {
	A int64    `json:"satoshi"`
	F c17Float `json:"f"`
}

var kC17Mul = register(&Kind[c17Mul]{
	Prop: "C17", Name: "mulf64",
	Gen: func(t *rapid.T) c17Mul {
		var f float64
		switch rapid.IntRange(0, 4).Draw(t, "fcls") {
		case 0:
			f = rapid.SampledFrom([]float64{0, 1, -1, 0.5, 1.5, 0.1, 1e-8, 1.0 / 3, 2, 1e3}).Draw(t, "fc")
		case 1: // product near a tie: (k+0.5)/a
			f = 0 // resolved below
		default:
			f = rapid.Float64Range(-10, 10).Draw(t, "fu")
		}
		a := genSat(t)
		if f == 0 && a != 0 && rapid.Bool().Draw(t, "tie") {
			k := rapid.Int64Range(0, 1<<40).Draw(t, "k")
			f = (float64(k) + 0.5) / float64(a)
		}
		return c17Mul{A: a, F: mkFloat(f)}
	},
	Eval: func(c c17Mul, o *Obs) error {
		f := math.Float64frombits(c.F.Bits)
		if math.IsNaN(f) || math.IsInf(f, 0) {
			return nil
		}
		p := float64(c.A) * f
		if math.Abs(p) >= 1<<62 {
			return nil
		}
		want := roundHalfAway(p)
		got := bchutil.Amount(c.A).MulF64(f)
		if p != math.Trunc(p) {
			o.NT()
		}
		o.Class("C17:mulf64")
		if want.Cmp(big.NewInt(int64(got))) != 0 {
			return fmt.Errorf("Amount(%d).MulF64(%v) = %d; the float product is %v (exactly %s), nearest whole number (ties away) is %s",
				c.A, f, int64(got), p, new(big.Rat).SetFloat64(p).FloatString(20), want)
		}
		return nil
	},
})

// exhaustiveC17 sweeps contiguous ranges of satoshi amounts (low end, around 1 BCH, around 2^53/1e8
// boundaries of the float grid, and the top of the 21-million-coin range): BCH round trip and text.
// ---- kind: labels of unnamed units under concurrency ------------------------------------------
// Unit labels of unnamed exponents are assembled at run time; several goroutines printing in different
// unnamed units at once must each get their own label, every time.

type c17Labels struct {
	Units []int `json:"units"` // one goroutine per entry
	A     int64 `json:"amount"`
	Iters int   `json:"iters"`
}

func evalC17Labels(c c17Labels, o *Obs) error {
	if len(c.Units) < 2 || len(c.Units) > 16 || c.Iters < 1 || c.Iters > 1000000 {
		return hbug("bad labels case")
	}
	o.NT()
	o.Class("C17:labels-concurrent")
	errs := make([]error, len(c.Units))
	var wg sync.WaitGroup
	start := make(chan struct{})
	for g, u := range c.Units {
		g, u := g, u
		if u < -12 || u > 12 {
			return hbug("unit")
		}
		want := unitLabel(u)
		wg.Add(1)
		go func() {
			defer wg.Done()
			defer func() {
				if r := recover(); r != nil {
					errs[g] = fmt.Errorf("panic while printing in unit %d: %v\n%s", u, r, trimStack(string(debug.Stack())))
				}
			}()
			<-start
			for i := 0; i < c.Iters && errs[g] == nil; i++ {
				if got := bchutil.AmountUnit(u).String(); got != want {
					errs[g] = fmt.Errorf("AmountUnit(%d).String() = %q while %d goroutines print in units %v; want %q", u, got, len(c.Units), c.Units, want)
				} else if s := bchutil.Amount(c.A).Format(bchutil.AmountUnit(u)); !strings.HasSuffix(s, " "+want) {
					errs[g] = fmt.Errorf("Amount(%d).Format(unit %d) = %q while %d goroutines print in units %v; want the label %q", c.A, u, s, len(c.Units), c.Units, want)
				}
			}
		}()
	}
	close(start)
	wg.Wait()
	for _, e := range errs {
		if e != nil {
			return e
		}
	}
	return nil
}

var kC17Labels = register(&Kind[c17Labels]{Prop: "C17", Name: "labels-concurrent", Eval: evalC17Labels,
	Gen: func(t *rapid.T) c17Labels {
		c := c17Labels{A: genSat(t), Iters: pick(3000, 20000)}
		for g := rapid.IntRange(2, 8).Draw(t, "g"); g > 0; g-- {
			c.Units = append(c.Units, rapid.IntRange(-12, 12).Draw(t, "u"))
		}
		return c
	}})

func exhaustiveC17(ev *Ev) {
	n := int64(pick(200000, 8000000))
	starts := []int64{0, 100000000 - n/2, 4503599627370496/100 - n/2, 2100000000000000 - n}
	var total int64
	for _, st := range starts {
		for a := st + int64(shard); a <= st+n; a += int64(nShards) {
			for _, sign := range []int64{1, -1} {
				v := a * sign
				total++
				am := bchutil.Amount(v)
				back, err := bchutil.NewAmount(am.ToBCH())
				if err != nil || back != am {
					kC17Unit.One(ev, c17Unit{A: v, U: 0})
					return
				}
				if a%16 == 0 { // text (slower: exact rational parse)
					if err := safeEval(evalC17Unit, c17Unit{A: v, U: 0}, &Obs{}); err != nil {
						kC17Unit.One(ev, c17Unit{A: v, U: 0})
						return
					}
				}
			}
		}
	}
	ev.Bulk("C17:exh-contiguous-satoshi-ranges", total, total)
	ev.Exhaustive(fmt.Sprintf("BCH round trip NewAmount(a.ToBCH())==a for every satoshi amount a (both signs) in four contiguous ranges of %d values: from 0, around 1 BCH, around 2^52 satoshi/100, and ending at 21e14; every 16th also through Format/String", n), 8*n)
}

func TestC17(t *testing.T) {
	propTest(t, "C17", func(ev *Ev) {
		ev.Rule("floats: exact decimal amounts a/1e8 (a<=2.1e15) and the same +-1..3 ulps, tie neighbourhoods (a+0.5)/1e8, products "+
			"forced to 0.49999999999999994 / 0.5 / odd integers in [2^52,2^53) / [2^53,2^62), random bit patterns, +-0, subnormals, "+
			"NaN, +-Inf, with negation (odd symmetry) and ordered pairs (monotonicity); integers |a|<=2.1e15 biased to the cap, "+
			"powers of ten +-1, 9..9 patterns, > 2^50; units: the six named ones and every exponent -12..12; MulF64 multipliers incl. "+
			"tie-producing ones. Oracles in exact arithmetic (math/big): NewAmount/MulF64 == round-half-away of the float64 product; "+
			"error <=> NaN/Inf; ToUnit == float64 nearest to a/10^(u+8); Format parses exactly to a*10^-(u+8) and ends with the unit "+
			"label; String == Format(BCH); NewAmount(a.ToBCH()) == a. Non-trivial = non-integer product / |a|>=1e8 / product >= 2^52.",
			"the compiler does not fuse f*1e8+0.5 into an FMA (true on amd64; checked at run time)", "math/big is correct")
		if runtime.GOARCH != "amd64" {
			ev.HarnessError("C17's product-rounding oracle assumes no FMA fusion; GOARCH=%s", runtime.GOARCH)
			return
		}
		if roundHalfAway(0.5).Int64() != 1 || roundHalfAway(-0.5).Int64() != -1 || roundHalfAway(0.49999999999999994).Int64() != 0 ||
			roundHalfAway(2.5).Int64() != 3 || roundHalfAway(-1.4).Int64() != -1 {
			ev.HarnessError("roundHalfAway self-test failed")
			return
		}
		// regression cases (see KNOWN_FINDINGS.txt)
		kC17New.One(ev, mkFloat(0.49999999999999994/1e8))
		kC17Unit.One(ev, c17Unit{A: 2099999999999999, U: -9})
		kC17Unit.One(ev, c17Unit{A: 1234567, U: -12})
		exhaustiveC17(ev)
		// ToUnit alone, in bulk: every unit x thousands of amounts spread over the whole range (a conversion that is
		// rounded twice is off for about one amount in a few thousand, and only in some units)
		{
			var n int64
			x := uint64(seedEnv)*0x9e3779b97f4a7c15 + uint64(shard)*0xbf58476d1ce4e5b9 + 1
			per := pick(6000, 400000)
		bulk:
			for u := -12; u <= 12; u++ {
				scale := pow10Rat(-(u + 8))
				for i := 0; i < per; i++ {
					x = x*6364136223846793005 + 1442695040888963407
					v := int64((x >> 11) % uint64(maxSat+1))
					if i%2 == 1 {
						v = -v
					}
					want, _ := new(big.Rat).Mul(new(big.Rat).SetInt64(v), scale).Float64()
					n++
					if bchutil.Amount(v).ToUnit(bchutil.AmountUnit(u)) != want {
						kC17Unit.One(ev, c17Unit{A: v, U: u})
						break bulk
					}
				}
			}
			ev.Bulk("C17:tounit-bulk-every-unit", n, n)
		}
		kC17New.Run(t, ev, perShard(pick(60000, 20000000)))
		kC17Mono.Run(t, ev, perShard(pick(30000, 10000000)))
		kC17Unit.Run(t, ev, perShard(pick(60000, 20000000)))
		kC17Mul.Run(t, ev, perShard(pick(40000, 12000000)))
		runConcurrent(kC17Unit, t, ev, perShard(pick(300, 30000)), 8)
		kC17Labels.Run(t, ev, perShard(pick(60, 3000)))
		ev.requireClasses("C17:new-nan-inf", "C17:new-non-integer-product", "C17:new-integer-product>=2^52", "C17:monotone",
			"C17:unit=-12", "C17:unit=-9", "C17:unit=-8", "C17:unit=0", "C17:unit=6", "C17:unit=12", "C17:mulf64")
	})
}
