package harness

// C02 Address decoding is strict, canonical and network-separating.

import (
	"bytes"
	"encoding/hex"
	"fmt"
	"math/big"
	"os"
	"strings"
	"sync"
	"testing"

	"github.com/gcash/bchutil"
	"pgregory.net/rapid"
)

type c02Case struct {
	S     string `json:"s"`
	Class string `json:"class"`
}

// legacy version byte tables, read from chaincfg at run time
func legacyIDs() (p2pkh, p2sh map[byte]bool) {
	p2pkh, p2sh = map[byte]bool{}, map[byte]bool{}
	for _, n := range nets {
		p2pkh[n.Params.LegacyPubKeyHashAddrID] = true
		p2sh[n.Params.LegacyScriptHashAddrID] = true
	}
	return
}

// stripKnownPrefix removes a leading "<prefix>:" (ASCII case-insensitively) if prefix
// is non-empty and present.
func stripKnownPrefix(lower, prefix string) (string, bool) {
	if prefix != "" && strings.HasPrefix(lower, prefix+":") {
		return lower[len(prefix)+1:], true
	}
	return lower, false
}

// evalC02OnNet judges one (string, net) pair.
func evalC02OnNet(s string, ni int, o *Obs) error {
	p := nets[ni].Params
	d, err := bchutil.DecodeAddress(s, p)
	if err != nil {
		o.Class("C02:rejected")
		return nil
	}
	where := fmt.Sprintf("DecodeAddress(%q, %s)", s, nets[ni].Name)
	lower := asciiLower(s)
	cashP, slpP := p.CashAddressPrefix, p.SlpAddressPrefix
	switch a := d.(type) {
	case *bchutil.AddressPubKeyHash, *bchutil.AddressScriptHash, *bchutil.AddressScriptHash32:
		o.Class("C02:accepted-cash")
		norm, explicit, explicitPrefix := lower, false, ""
		if n, ok := stripKnownPrefix(lower, cashP); ok {
			norm, explicit, explicitPrefix = n, true, cashP
		} else if n, ok := stripKnownPrefix(lower, slpP); ok {
			norm, explicit, explicitPrefix = n, true, slpP
		}
		enc := d.EncodeAddress()
		if norm != enc {
			return fmt.Errorf("%s accepted as %T but re-encodes to %q: not the input up to ASCII case folding and the "+
				"optional prefix (normalised input %q)", where, d, enc, norm)
		}
		// strict reference acceptor under exactly one of the net's two prefixes
		var okPrefix string
		var typ int
		var hash []byte
		for _, pf := range []string{cashP, slpP} {
			if pf == "" || (explicit && pf != explicitPrefix) {
				continue
			}
			if t, h, err := refCashDecodeStrict(pf, norm); err == nil {
				okPrefix, typ, hash = pf, t, h
				break
			}
		}
		if okPrefix == "" {
			_, _, e1 := refCashDecodeStrict(cashP, norm)
			return fmt.Errorf("%s accepted as %T (%x) but the strict CashAddr acceptor rejects %q under the net's prefixes (%v)",
				where, d, d.ScriptAddress(), norm, e1)
		}
		var wantType string
		switch {
		case typ == 0 && len(hash) == 20:
			wantType = "*bchutil.AddressPubKeyHash"
		case typ == 1 && len(hash) == 20:
			wantType = "*bchutil.AddressScriptHash"
		case typ == 1 && len(hash) == 32:
			wantType = "*bchutil.AddressScriptHash32"
		default:
			return fmt.Errorf("%s accepted as %T but its version byte encodes type %d with a %d-byte hash (unknown type/size)",
				where, d, typ, len(hash))
		}
		if got := fmt.Sprintf("%T", d); got != wantType {
			return fmt.Errorf("%s accepted as %s, version byte says %s", where, got, wantType)
		}
		if !bytes.Equal(d.ScriptAddress(), hash) {
			return fmt.Errorf("%s payload %x, reference %x", where, d.ScriptAddress(), hash)
		}
		if okPrefix == cashP && !d.IsForNet(p) {
			return fmt.Errorf("%s: accepted cash-format address does not report membership of %s", where, nets[ni].Name)
		}
		if okPrefix == slpP {
			o.Class("C02:accepted-slp")
		}
		_ = a
	case *bchutil.LegacyAddressPubKeyHash, *bchutil.LegacyAddressScriptHash:
		o.Class("C02:accepted-legacy")
		if enc := d.EncodeAddress(); enc != s {
			return fmt.Errorf("%s accepted as %T but re-encodes to %q", where, d, enc)
		}
		payload, ver, ok := refB58CheckDecode(s)
		if !ok || len(payload) != 20 {
			return fmt.Errorf("%s accepted as %T but Base58Check reference gives ok=%v payload %x", where, d, ok, payload)
		}
		pk, sh := legacyIDs()
		_, isPK := d.(*bchutil.LegacyAddressPubKeyHash)
		if pk[ver] == sh[ver] || pk[ver] != isPK {
			return fmt.Errorf("%s accepted as %T but version byte 0x%02x is registered P2PKH=%v P2SH=%v", where, d, ver, pk[ver], sh[ver])
		}
		if !bytes.Equal(d.ScriptAddress(), payload) {
			return fmt.Errorf("%s payload %x, reference %x", where, d.ScriptAddress(), payload)
		}
		for _, n2 := range nets {
			want := ver == n2.Params.LegacyScriptHashAddrID
			if isPK {
				want = ver == n2.Params.LegacyPubKeyHashAddrID
			}
			if d.IsForNet(n2.Params) != want {
				return fmt.Errorf("%s (version 0x%02x): IsForNet(%s) = %v, want %v", where, ver, n2.Name, !want, want)
			}
		}
	case *bchutil.AddressPubKey:
		o.Class("C02:accepted-pubkey")
		if lower != d.String() {
			return fmt.Errorf("%s accepted as public key but String() = %q is not the (ASCII lower-cased) input", where, d.String())
		}
		raw, herr := hex.DecodeString(lower)
		if herr != nil {
			return fmt.Errorf("%s accepted but input is not hex", where)
		}
		if !refPubKeyValid(raw) {
			return fmt.Errorf("%s accepted, but %x is not a valid secp256k1 public key serialisation "+
				"(format byte 0x%02x, length %d)", where, raw, raw[0], len(raw))
		}
		if !bytes.Equal(d.ScriptAddress(), raw) {
			return fmt.Errorf("%s ScriptAddress %x != input bytes", where, d.ScriptAddress())
		}
		if !d.IsForNet(p) {
			return fmt.Errorf("%s: public key address not for the default net", where)
		}
	default:
		return fmt.Errorf("%s returned unexpected type %T", where, d)
	}
	return nil
}

// refPubKeyValid: SEC1 serialisations accepted by Bitcoin: 02/03 (33 bytes), 04
// (65 bytes), hybrid 06/07 (65 bytes, parity bit consistent); point on the curve.
func refPubKeyValid(raw []byte) bool {
	if len(raw) == 33 && (raw[0] == 2 || raw[0] == 3) {
		x := new(big.Int).SetBytes(raw[1:])
		_, ok := liftX(x)
		return ok
	}
	if len(raw) == 65 && (raw[0] == 4 || raw[0] == 6 || raw[0] == 7) {
		x := new(big.Int).SetBytes(raw[1:33])
		y := new(big.Int).SetBytes(raw[33:])
		if !onCurve(x, y) {
			return false
		}
		if raw[0] != 4 && byte(y.Bit(0)) != raw[0]&1 {
			return false
		}
		return true
	}
	return false
}

func evalC02(c c02Case, o *Obs) error {
	o.Class("C02:class-" + c.Class)
	before := len(o.classes)
	for ni := range nets {
		if err := evalC02OnNet(c.S, ni, o); err != nil {
			return err
		}
	}
	// non-trivial: passed the outer layer of some decoder
	if c02OuterLayerOK(c.S) {
		o.NT()
		o.Class("C02:outer-layer-passed")
	}
	_ = before
	return nil
}

// c02OuterLayerOK: valid CashAddr checksum under some known prefix (explicit or
// implied), valid Base58Check, or hex of public-key length.
func c02OuterLayerOK(s string) bool {
	lower := asciiLower(s)
	for _, n := range nets {
		for _, pf := range []string{n.Params.CashAddressPrefix, n.Params.SlpAddressPrefix} {
			if pf == "" {
				continue
			}
			body, _ := stripKnownPrefix(lower, pf)
			if _, err := refCashDecodeRaw(pf, body); err == nil {
				return true
			}
		}
	}
	if i := strings.IndexByte(lower, ':'); i > 0 {
		if _, err := refCashDecodeRaw(lower[:i], lower[i+1:]); err == nil {
			return true
		}
	}
	if _, _, ok := refB58CheckDecode(s); ok {
		return true
	}
	if len(s) == 66 || len(s) == 130 {
		if _, err := hex.DecodeString(s); err == nil {
			return true
		}
	}
	return false
}

// ---- generators --------------------------------------------------------------------

func genKnownPrefix(t *rapid.T) string {
	var ps []string
	for _, n := range nets {
		ps = append(ps, n.Params.CashAddressPrefix)
		if n.Params.SlpAddressPrefix != "" {
			ps = append(ps, n.Params.SlpAddressPrefix)
		}
	}
	return rapid.SampledFrom(ps).Draw(t, "prefix")
}

// genCashSymbols builds 5-bit payload symbols for (version byte, payload) with
// arbitrary padding bits and optionally one surplus symbol.
func genCashSymbols(t *rapid.T) []byte {
	if rapid.IntRange(0, 19).Draw(t, "tinypayload") == 0 { // nothing, or almost nothing, in front of the checksum
		n := rapid.IntRange(0, 2).Draw(t, "tinyn")
		syms := make([]byte, n)
		for i := range syms {
			syms[i] = byte(rapid.IntRange(0, 31).Draw(t, "tinysym"))
		}
		return syms
	}
	var ver byte
	switch rapid.IntRange(0, 5).Draw(t, "ver_cls") {
	case 0:
		ver = []byte{0x00, 0x08, 0x0b}[rapid.IntRange(0, 2).Draw(t, "ver_std")]
	case 1:
		ver = []byte{0x01, 0x03, 0x09, 0x0a, 0x10, 0x18, 0x13, 0x40, 0x78, 0x80, 0x88, 0x8b}[rapid.IntRange(0, 11).Draw(t, "ver_odd")]
	default:
		ver = rapid.Byte().Draw(t, "ver")
	}
	var n int
	switch rapid.IntRange(0, 5).Draw(t, "len_cls") {
	case 0, 1:
		n = cashSizes[ver&7]
	case 2:
		n = 20
	case 3:
		n = 32
	default:
		n = rapid.IntRange(0, 65).Draw(t, "len")
	}
	data := append([]byte{ver}, genBytesN(t, "payload", n)...)
	syms, _ := refConvertBits(data, 8, 5, true)
	padBits := (5 - (len(data)*8)%5) % 5
	switch rapid.IntRange(0, 4).Draw(t, "pad_cls") {
	case 0: // non-zero padding bits
		if padBits > 0 {
			syms[len(syms)-1] |= byte(rapid.IntRange(1, 1<<uint(padBits)-1).Draw(t, "padbits"))
		}
	case 1: // one surplus symbol (often the all-zero symbol: "over-long padding")
		if rapid.Bool().Draw(t, "surplus_zero") {
			syms = append(syms, 0)
		} else {
			syms = append(syms, byte(rapid.IntRange(0, 31).Draw(t, "surplus")))
		}
	}
	return syms
}

// render applies prefix/case/fold renderings to prefix + payload string.
func renderCash(t *rapid.T, prefix, body string) string {
	s := body
	if rapid.Bool().Draw(t, "with_prefix") {
		s = prefix + ":" + body
	}
	switch rapid.IntRange(0, 5).Draw(t, "case") {
	case 0:
		s = asciiUpper(s)
	case 1: // mixed
		b := []byte(s)
		for i := range b {
			if b[i] >= 'a' && b[i] <= 'z' && rapid.Bool().Draw(t, "up") {
				b[i] -= 32
			}
		}
		s = string(b)
	case 2: // Unicode simple-fold partners of k / s
		var sb strings.Builder
		for _, r := range s {
			switch {
			case (r == 'k' || r == 'K') && rapid.Bool().Draw(t, "kelvin"):
				sb.WriteRune('K')
			case (r == 's' || r == 'S') && rapid.Bool().Draw(t, "longs"):
				sb.WriteRune('ſ')
			default:
				sb.WriteRune(r)
			}
		}
		s = sb.String()
	case 3: // byte-level aliases of one character (bit 5/6/7 flipped, same-low-byte runes)
		s = aliasChar(t, s)
	}
	return s
}

func genValidAddressString(t *rapid.T) string {
	k := rapid.IntRange(0, akCount-1).Draw(t, "vkind")
	n := genNet(t)
	if isSlpKind(k) {
		n = genSlpNet(t, "vslpnet")
	}
	c := c01Case{Kind: k, Net: n}
	fixed, script, scalar := c01PayloadLen(k)
	switch {
	case script:
		c.Payload = genBytes(t, "vscript", 0, 40)
	case scalar:
		c.Payload = genScalar(t, "vk")
	default:
		c.Payload = genBytesN(t, "vhash", fixed)
	}
	_, want, wantScript, prefix, _ := c01Construct(c)
	switch {
	case k >= akPubCompressed:
		return hex.EncodeToString(wantScript)
	case prefix != "" && rapid.Bool().Draw(t, "vprefix"):
		return prefix + ":" + want
	}
	return want
}

func mutateString(t *rapid.T, s string) string {
	b := []byte(s)
	if len(b) == 0 {
		return s
	}
	switch rapid.IntRange(0, 6).Draw(t, "mut") {
	case 0: // substitute with a char of the same alphabet family
		i := rapid.IntRange(0, len(b)-1).Draw(t, "i")
		b[i] = rapid.SampledFrom([]byte(b32Charset+b58Alphabet+":")).Draw(t, "c")
	case 1: // delete
		i := rapid.IntRange(0, len(b)-1).Draw(t, "i")
		b = append(b[:i], b[i+1:]...)
	case 2: // insert
		i := rapid.IntRange(0, len(b)).Draw(t, "i")
		c := rapid.SampledFrom([]byte(b32Charset+"1:")).Draw(t, "c")
		b = append(b[:i], append([]byte{c}, b[i:]...)...)
	case 3: // swap neighbours
		if len(b) > 1 {
			i := rapid.IntRange(0, len(b)-2).Draw(t, "i")
			b[i], b[i+1] = b[i+1], b[i]
		}
	case 4: // change / add prefix to another net's
		body := s
		if i := strings.IndexByte(s, ':'); i >= 0 {
			body = s[i+1:]
		}
		return genKnownPrefix(t) + ":" + body
	case 5: // arbitrary byte
		i := rapid.IntRange(0, len(b)-1).Draw(t, "i")
		b[i] = rapid.Byte().Draw(t, "c")
	case 6: // concatenate with itself
		b = append(b, b...)
	}
	return string(b)
}

func genC02(t *rapid.T) c02Case {
	switch rapid.IntRange(0, 9).Draw(t, "class") {
	case 0, 1, 2, 3: // A: valid checksum over arbitrary symbols
		var prefix string
		if rapid.IntRange(0, 5).Draw(t, "unk") == 0 {
			prefix = rapid.StringMatching("[a-z]{1,12}").Draw(t, "unkprefix")
			switch rapid.IntRange(0, 4).Draw(t, "nearprefix") {
			case 4: // no prefix at all went into the checksum (simnet's SLP prefix is the empty string)
				body := refCashEncodeSymbols("", genCashSymbols(t))
				return c02Case{S: rapid.SampledFrom([]string{"", ":"}).Draw(t, "emptyprefixsep") + body, Class: "A"}
			case 0: // a known prefix with something appended
				prefix = genKnownPrefix(t) + rapid.StringMatching("[a-z]{1,4}").Draw(t, "ext")
			case 1: // a known prefix cut short
				if p := genKnownPrefix(t); len(p) > 1 {
					prefix = p[:rapid.IntRange(1, len(p)-1).Draw(t, "cut")]
				}
			case 2: // a separator in front of or inside the "prefix" the checksum was computed for
				prefix = rapid.SampledFrom([]string{":", ":abc", "a:b", "::", genKnownPrefix(t) + ":", ":" + genKnownPrefix(t),
					genKnownPrefix(t) + ":foo", genKnownPrefix(t) + ":" + genKnownPrefix(t), genKnownPrefix(t) + ":q"}).Draw(t, "colonprefix")
				body := refCashEncodeSymbols(prefix, genCashSymbols(t))
				s := prefix + ":" + body
				if rapid.Bool().Draw(t, "dropfirst") {
					s = s[1:]
				}
				return c02Case{S: s, Class: "A"}
			}
		} else {
			prefix = genKnownPrefix(t)
		}
		body := refCashEncodeSymbols(prefix, genCashSymbols(t))
		return c02Case{S: renderCash(t, prefix, body), Class: "A"}
	case 4, 5: // B: Base58Check
		var ver byte
		if rapid.Bool().Draw(t, "regver") {
			ver = rapid.SampledFrom([]byte{0x00, 0x05, 0x6f, 0xc4, 0x3f, 0x7b, 0x80, 0xef, 0x64, 0xa1, 0xa2, 0xb1, 0xb2}).Draw(t, "ver")
		} else {
			ver = rapid.Byte().Draw(t, "ver")
		}
		n := 20
		if rapid.IntRange(0, 2).Draw(t, "len_cls") == 0 {
			n = rapid.IntRange(0, 40).Draw(t, "len")
		}
		s := refB58CheckEncode(genBytesN(t, "payload", n), ver)
		switch rapid.IntRange(0, 7).Draw(t, "edit") {
		case 0, 1:
			s = mutateString(t, s)
		case 2:
			s = aliasChar(t, s)
		}
		return c02Case{S: s, Class: "B"}
	case 6, 7: // C: hex strings of public-key length
		h := genPubKeyHex(t)
		if rapid.IntRange(0, 7).Draw(t, "hexalias") == 0 {
			h = aliasChar(t, h)
		}
		return c02Case{S: h, Class: "C"}
	case 8: // D: mutations of valid addresses
		return c02Case{S: mutateString(t, genValidAddressString(t)), Class: "D"}
	default: // E: random strings
		if rapid.Bool().Draw(t, "printable") {
			return c02Case{S: rapid.StringMatching(`[ -~]{0,150}`).Draw(t, "s"), Class: "E"}
		}
		return c02Case{S: string(rapid.SliceOfN(rapid.Byte(), 0, 150).Draw(t, "s")), Class: "E"}
	}
}

func genPubKeyHex(t *rapid.T) string {
	k := genScalar(t, "k")
	x, y := pubPoint(k)
	long := rapid.Bool().Draw(t, "long")
	var raw []byte
	if long {
		raw = serPub(x, y, 1)
	} else {
		raw = serPub(x, y, 0)
	}
	// format byte
	switch rapid.IntRange(0, 3).Draw(t, "fmt_cls") {
	case 0:
		raw[0] = rapid.Byte().Draw(t, "fmt")
	case 1:
		raw[0] = rapid.SampledFrom([]byte{2, 3, 4, 5, 6, 7, 0, 1, 8}).Draw(t, "fmt")
	case 2:
		if long {
			raw[0] = 0x06 | byte(y.Bit(0)) ^ byte(rapid.IntRange(0, 1).Draw(t, "parityflip"))
		}
	}
	switch rapid.IntRange(0, 6).Draw(t, "pt_cls") {
	case 0: // x not on curve (flip low bit until no y exists, bounded)
		xx := new(big.Int).Set(x)
		for i := 0; i < 20; i++ {
			xx.Add(xx, big.NewInt(1))
			if _, ok := liftX(xx); !ok {
				break
			}
		}
		copy(raw[1:33], pad32(xx))
	case 1: // x >= p
		xx := new(big.Int).Add(curveP, big.NewInt(int64(rapid.IntRange(0, 1000).Draw(t, "over"))))
		copy(raw[1:33], pad32(xx))
	case 2: // wrong y
		if long {
			raw[64] ^= byte(rapid.IntRange(1, 255).Draw(t, "ydelta"))
		}
	case 3: // negated y (valid point, other parity)
		if long {
			ny := new(big.Int).Sub(curveP, y)
			copy(raw[33:], pad32(ny))
		}
	}
	// length variations
	switch rapid.IntRange(0, 9).Draw(t, "len_cls") {
	case 0:
		raw = raw[:len(raw)-1]
	case 1:
		raw = append(raw, 0)
	}
	s := hex.EncodeToString(raw)
	switch rapid.IntRange(0, 3).Draw(t, "hexcase") {
	case 0:
		s = asciiUpper(s)
	case 1:
		b := []byte(s)
		for i := range b {
			if b[i] >= 'a' && b[i] <= 'f' && rapid.Bool().Draw(t, "up") {
				b[i] -= 32
			}
		}
		s = string(b)
	}
	return s
}

var kC02 = register(&Kind[c02Case]{Prop: "C02", Name: "decode", Gen: genC02, Eval: evalC02})

// ---- kind: concurrent (a valid address and corrupted copies of it, decoded at the same time) ----

type c02Conc struct {
	Net     int      `json:"net"`
	Valid   string   `json:"valid"`
	Corrupt []string `json:"corrupt"`
}

func evalC02Conc(c c02Conc, o *Obs) error {
	p := nets[c.Net].Params
	if _, err := bchutil.DecodeAddress(c.Valid, p); err != nil {
		return hbug("valid address rejected sequentially: %v", err)
	}
	for _, s := range c.Corrupt {
		if _, err := bchutil.DecodeAddress(s, p); err == nil {
			return fmt.Errorf("DecodeAddress(%q, %s) accepts a string with a failing checksum", s, nets[c.Net].Name)
		}
	}
	o.NT()
	o.Class("C02:concurrent-valid-and-corrupted")
	loops := 300
	if os.Getenv("VERIF_REPLAY") != "" {
		loops = 20000
	}
	errs := make(chan error, len(c.Corrupt)+1)
	var wg sync.WaitGroup
	start := make(chan struct{})
	run := func(s string, wantOK bool) {
		defer wg.Done()
		<-start
		for i := 0; i < loops; i++ {
			a, err := bchutil.DecodeAddress(s, p)
			if wantOK && (err != nil || !strings.HasSuffix(asciiLower(c.Valid), a.EncodeAddress())) {
				errs <- fmt.Errorf("DecodeAddress(%q, %s) fails or decodes to another address (%v) while other strings are decoded concurrently", s, nets[c.Net].Name, err)
				return
			}
			if !wantOK && err == nil {
				errs <- fmt.Errorf("DecodeAddress(%q, %s) accepts a string with a failing checksum while %q is decoded concurrently (it is rejected on its own)", s, nets[c.Net].Name, c.Valid)
				return
			}
		}
	}
	wg.Add(1 + len(c.Corrupt))
	go run(c.Valid, true)
	for _, s := range c.Corrupt {
		go run(s, false)
	}
	close(start)
	wg.Wait()
	select {
	case err := <-errs:
		return err
	default:
	}
	return nil
}

var kC02Conc = register(&Kind[c02Conc]{
	Prop: "C02", Name: "concurrent",
	Gen: func(t *rapid.T) c02Conc {
		c := c02Conc{Net: genNet(t)}
		p := nets[c.Net].Params
		prefix := p.CashAddressPrefix
		if p.SlpAddressPrefix != "" && rapid.Bool().Draw(t, "slp") {
			prefix = p.SlpAddressPrefix
		}
		hl, typ := 20, rapid.IntRange(0, 1).Draw(t, "typ")
		if rapid.IntRange(0, 3).Draw(t, "p2sh32") == 0 {
			hl, typ = 32, 1
		}
		body := refCashEncode(prefix, typ, genBytesN(t, "hash", hl))
		c.Valid = prefix + ":" + body
		if rapid.Bool().Draw(t, "noprefix") {
			c.Valid = body
		}
		for i := rapid.IntRange(1, 3).Draw(t, "ncorrupt"); i > 0; i-- {
			b := []byte(body)
			j := rapid.IntRange(0, len(b)-1).Draw(t, "pos")
			for {
				ch := b32Charset[rapid.IntRange(0, 31).Draw(t, "sym")]
				if ch != b[j] {
					b[j] = ch
					break
				}
			}
			s := string(b)
			if strings.Contains(c.Valid, ":") {
				s = prefix + ":" + s
			}
			c.Corrupt = append(c.Corrupt, s)
		}
		return c
	},
	Eval: evalC02Conc,
})

func TestC02(t *testing.T) {
	propTest(t, "C02", func(ev *Ev) {
		ev.Rule("strings from five generator classes, each decoded on all six networks: A valid-checksum CashAddr strings over "+
			"arbitrary 5-bit payloads (all version bytes, lengths 0..65, arbitrary padding bits / surplus symbol, known and "+
			"unknown prefixes, with/without prefix, lower/upper/mixed case, Unicode simple-fold partners of k and s); B "+
			"Base58Check over all version bytes / lengths 0..40 with edits; C hex strings of public-key length with hostile "+
			"format bytes and points; D mutations of valid addresses; E random strings. Oracle: accept => canonical re-encoding "+
			"(ASCII case folding + optional prefix only), strict reference acceptor agrees on kind and payload, network "+
			"membership table. Non-trivial = string passes the outer layer (valid CashAddr checksum under some prefix, valid "+
			"Base58Check, or hex of public-key length); distinct by string.",
			"reference codecs pinned to published vectors", "math/big ModSqrt for curve membership")
		refSelfCodecs(ev)
		if len(ev.harnessErrors) > 0 {
			return
		}
		// custom networks: see setupProp
		for _, ver := range []byte{0xb1, 0xb2} {
			kC02.One(ev, c02Case{S: refB58CheckEncode(bytes.Repeat([]byte{0x44}, 20), ver), Class: "B"})
		}
		for _, ver := range []byte{0xa1, 0xa2} {
			kC02.One(ev, c02Case{S: refB58CheckEncode(bytes.Repeat([]byte{0x33}, 20), ver), Class: "B"})
		}
		// regression cases for defects found by this check (see KNOWN_FINDINGS.txt)
		h20 := bytes.Repeat([]byte{0x11}, 20)
		for _, ver := range []byte{0x10, 0x18, 0x01, 0x40, 0x78, 0x80} {
			syms, _ := refConvertBits(append([]byte{ver}, h20...), 8, 5, true)
			kC02.One(ev, c02Case{S: "bitcoincash:" + refCashEncodeSymbols("bitcoincash", syms), Class: "A"})
		}
		for i := 0; i < 256; i++ {
			h := make([]byte, 20)
			h[19] = byte(i)
			if enc := refCashEncode("bitcoincash", 0, h); strings.Contains(enc, "k") {
				kC02.One(ev, c02Case{S: strings.Replace(enc, "k", "\u212a", 1), Class: "A"})
				break
			}
		}
		kx, ky := pubPoint(pad32(big.NewInt(7)))
		bad := serPub(kx, ky, 1)
		bad[0] = 0x05
		kC02.One(ev, c02Case{S: hex.EncodeToString(bad), Class: "C"})

		// deterministic grid: every version byte x every standard payload length (and 19/21/33 bytes) x
		// {mainnet cash prefix, mainnet SLP prefix, regtest prefix} x {with, without prefix}
		gi := 0
		for ver := 0; ver < 256; ver++ {
			for _, n := range []int{19, 20, 21, 24, 28, 32, 33, 40, 48, 56, 64} {
				payload := make([]byte, n)
				for i := range payload {
					payload[i] = byte(ver*7 + i*13 + n)
				}
				syms, _ := refConvertBits(append([]byte{byte(ver)}, payload...), 8, 5, true)
				for _, prefix := range []string{"bitcoincash", "simpleledger", "bchreg"} {
					gi++
					if gi%nShards != shard {
						continue
					}
					body := refCashEncodeSymbols(prefix, syms)
					if !kC02.One(ev, c02Case{S: prefix + ":" + body, Class: "grid"}) || !kC02.One(ev, c02Case{S: body, Class: "grid"}) {
						return
					}
				}
			}
		}
		kC02.Run(t, ev, perShard(pick(10000, 6000000)))
		runConcurrent(kC02, t, ev, perShard(pick(200, 20000)), 8)
		kC02Conc.Run(t, ev, perShard(pick(300, 30000)))
		kC02Alias.Run(t, ev, perShard(pick(120, 6000)))
		ev.requireClasses("C02:class-A", "C02:class-B", "C02:class-C", "C02:class-D", "C02:class-E",
			"C02:accepted-cash", "C02:accepted-slp", "C02:accepted-legacy", "C02:accepted-pubkey", "C02:outer-layer-passed")
	})
}
