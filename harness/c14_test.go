package harness

// C14 GCS filters are bit-exact Golomb-Rice encodings and serialise losslessly.

import (
	"bytes"
	"fmt"
	"sort"
	"sync"
	"testing"

	"github.com/gcash/bchd/chaincfg/chainhash"
	"github.com/gcash/bchd/wire"
	"github.com/gcash/bchutil/gcs"
	"github.com/gcash/bchutil/gcs/builder"
	"pgregory.net/rapid"
)

// ---- kind: encode --------------------------------------------------------------------

type c14Case struct {
	D gcsData `json:"filter"`
}

func sameAnswers(a, b *gcs.Filter, key [16]byte, probes [][]byte) error {
	for _, x := range probes {
		ra, ea := a.Match(key, x)
		rb, eb := b.Match(key, x)
		if ra != rb || (ea == nil) != (eb == nil) {
			return fmt.Errorf("Match(%x): original %v,%v rebuilt %v,%v", x, ra, ea, rb, eb)
		}
	}
	for _, q := range [][][]byte{probes, probes[:len(probes)/2], probes[len(probes)/2:]} {
		for _, pair := range []struct {
			name   string
			fa, fb func([16]byte, [][]byte) (bool, error)
		}{{"MatchAny", a.MatchAny, b.MatchAny}, {"ZipMatchAny", a.ZipMatchAny, b.ZipMatchAny}, {"HashMatchAny", a.HashMatchAny, b.HashMatchAny}} {
			ra, ea := pair.fa(key, q)
			rb, eb := pair.fb(key, q)
			if ra != rb || (ea == nil) != (eb == nil) {
				return fmt.Errorf("%s: original %v,%v rebuilt %v,%v", pair.name, ra, ea, rb, eb)
			}
		}
	}
	return nil
}

func evalC14(c c14Case, o *Obs) error {
	if len(c.D.Key) != 16 || c.D.P > 32 || c.D.M == 0 {
		return hbug("bad filter parameters")
	}
	items := c.D.items()
	key := c.D.key()
	f, err := gcs.BuildGCSFilter(c.D.P, c.D.M, key, items)
	if err != nil {
		return fmt.Errorf("BuildGCSFilter failed: %v", err)
	}
	n := uint64(len(items))
	desc := fmt.Sprintf("filter(P=%d,M=%d,N=%d,key=%x,seed=%d)", c.D.P, c.D.M, n, key, c.D.Seed)
	vals := refGCSValues(key, c.D.M, items)
	want := refGCSEncode(c.D.P, vals)
	if n == 0 {
		want = nil
	}
	if n >= 1 {
		o.NT()
	}
	o.Class("C14:P%%8=%d", c.D.P%8)
	if (n*c.D.M)>>32 != 0 {
		o.Class("C14:N*M-high-half-nonzero")
	}
	got, err := f.Bytes()
	if err != nil || !bytes.Equal(got, want) {
		return fmt.Errorf("%s: Bytes() = %x (err %v), Golomb-Rice encoding of the reduced SipHash values is %x", desc, clip(got), err, clip(want))
	}
	if f.N() != uint32(n) || f.P() != c.D.P {
		return fmt.Errorf("%s: N()=%d P()=%d", desc, f.N(), f.P())
	}
	nb, e1 := f.NBytes()
	pb, e2 := f.PBytes()
	npb, e3 := f.NPBytes()
	if e1 != nil || e2 != nil || e3 != nil {
		return fmt.Errorf("%s: serialiser error %v %v %v", desc, e1, e2, e3)
	}
	cs := compactSize(n)
	if !bytes.Equal(nb, append(append([]byte{}, cs...), want...)) {
		return fmt.Errorf("%s: NBytes() = %x, want CompactSize(N)||bytes", desc, clip(nb))
	}
	if !bytes.Equal(pb, append([]byte{c.D.P}, want...)) {
		return fmt.Errorf("%s: PBytes() = %x, want P||bytes", desc, clip(pb))
	}
	if !bytes.Equal(npb, append(append(append([]byte{}, cs...), c.D.P), want...)) {
		return fmt.Errorf("%s: NPBytes() = %x, want CompactSize(N)||P||bytes", desc, clip(npb))
	}
	// rebuilt filters
	probes := [][]byte{}
	for i := 0; i < 10; i++ {
		if len(items) > 0 {
			probes = append(probes, items[(i*7919)%len(items)])
		}
		probes = append(probes, derivedItem(c.D.Seed+1, i))
	}
	in1 := append([]byte{}, got...)
	f1, err := gcs.FromBytes(uint32(n), c.D.P, c.D.M, in1)
	if err != nil {
		return fmt.Errorf("%s: FromBytes failed: %v", desc, err)
	}
	in2 := append([]byte{}, nb...)
	f2, err := gcs.FromNBytes(c.D.P, c.D.M, in2)
	if err != nil {
		return fmt.Errorf("%s: FromNBytes failed: %v", desc, err)
	}
	// the input buffers are the caller's: re-using them must not reach into the filters built from them
	for i := range in1 {
		in1[i] ^= 0xa5
	}
	for i := range in2 {
		in2[i] ^= 0xa5
	}
	for name, r := range map[string]*gcs.Filter{"FromBytes": f1, "FromNBytes": f2} {
		rb, _ := r.Bytes()
		if r.N() != uint32(n) || r.P() != c.D.P || !bytes.Equal(rb, want) {
			return fmt.Errorf("%s: %s gives N=%d P=%d bytes %x", desc, name, r.N(), r.P(), clip(rb))
		}
		if err := sameAnswers(f, r, key, probes); err != nil {
			return fmt.Errorf("%s: filter rebuilt with %s answers differently: %v", desc, name, err)
		}
	}
	// filter hash / header
	fh, err := builder.GetFilterHash(f)
	if err != nil || !bytes.Equal(fh[:], dsha256(nb)) {
		return fmt.Errorf("%s: GetFilterHash = %x, want dSHA256(NBytes)", desc, fh[:])
	}
	var prev chainhash.Hash
	copy(prev[:], dsha256(c.D.Key))
	hd, err := builder.MakeHeaderForFilter(f, prev)
	if err != nil || !bytes.Equal(hd[:], dsha256(append(append([]byte{}, fh[:]...), prev[:]...))) {
		return fmt.Errorf("%s: MakeHeaderForFilter = %x, want dSHA256(filterhash||prev)", desc, hd[:])
	}
	return nil
}

var kC14 = register(&Kind[c14Case]{
	Prop: "C14", Name: "encode",
	Gen: func(t *rapid.T) c14Case {
		d := genGCSData(t, pick(6000, 100000))
		if d.M == 0 { // M = 0 (every item maps to 0) is exercised by C13 only
			d.M = 1
		}
		if rapid.IntRange(0, 3).Draw(t, "carry") == 0 {
			// exercise the carry path of the 64x64->128 multiply: both halves of N*M populated
			d.P = uint8(rapid.IntRange(20, 32).Draw(t, "p2"))
			d.N = rapid.IntRange(4096, pick(6000, 100000)).Draw(t, "n2")
			d.M = uint64(1)<<d.P + uint64(rapid.IntRange(1, 1<<20).Draw(t, "m2"))
		}
		return c14Case{D: d}
	},
	Eval: evalC14,
})

// ---- kind: blockfilter ----------------------------------------------------------------

type c14Tx struct {
	Ins  []c14In    `json:"ins"`
	Outs []HexBytes `json:"outs"` // pkScripts (may be empty)
}

type c14In struct {
	Hash  int    `json:"hash"` // small alphabet index
	Index uint32 `json:"index"`
}

type c14Block struct {
	Nonce uint32  `json:"nonce"`
	Txs   []c14Tx `json:"txs"`
	// BigTxs further transactions (one input, two outputs each, derived from their number) and one more with BigOuts
	// outputs follow: blocks as large as real ones
	BigTxs  int `json:"big_txs,omitempty"`
	BigOuts int `json:"big_outs,omitempty"`
}

func (b c14Block) build() *wire.MsgBlock {
	blk := wire.NewMsgBlock(&wire.BlockHeader{Version: 1, Nonce: b.Nonce})
	for _, t := range b.Txs {
		tx := wire.NewMsgTx(1)
		for _, in := range t.Ins {
			h := extHash(in.Hash%5 + 1)
			tx.AddTxIn(wire.NewTxIn(wire.NewOutPoint(&h, in.Index), nil))
		}
		for _, s := range t.Outs {
			tx.AddTxOut(wire.NewTxOut(1, []byte(s), wire.TokenData{}))
		}
		blk.AddTransaction(tx)
	}
	for i := 0; i < b.BigTxs && i < 100000; i++ {
		tx := wire.NewMsgTx(1)
		h := extHash(i%7 + 1)
		tx.AddTxIn(wire.NewTxIn(wire.NewOutPoint(&h, uint32(i)), nil))
		tx.AddTxOut(wire.NewTxOut(1, []byte{0x51, byte(i), byte(i >> 8)}, wire.TokenData{}))
		tx.AddTxOut(wire.NewTxOut(2, []byte{0x52, byte(i >> 3)}, wire.TokenData{}))
		blk.AddTransaction(tx)
	}
	if b.BigOuts > 0 && b.BigOuts <= 200000 {
		tx := wire.NewMsgTx(1)
		h := extHash(3)
		tx.AddTxIn(wire.NewTxIn(wire.NewOutPoint(&h, 77), nil))
		for i := 0; i < b.BigOuts; i++ {
			tx.AddTxOut(wire.NewTxOut(1, []byte{0x53, byte(i), byte(i >> 8), byte(i >> 16)}, wire.TokenData{}))
		}
		blk.AddTransaction(tx)
	}
	return blk
}

func refBasicEntries(txs []*wire.MsgTx, skipFirstInputs bool) [][]byte {
	seen := map[string]bool{}
	var out [][]byte
	add := func(b []byte) {
		if !seen[string(b)] {
			seen[string(b)] = true
			out = append(out, b)
		}
	}
	for i, tx := range txs {
		if !(skipFirstInputs && i == 0) {
			for _, in := range tx.TxIn {
				add(outpointBytes(in.PreviousOutPoint.Hash[:], in.PreviousOutPoint.Index))
			}
		}
		for _, o := range tx.TxOut {
			if len(o.PkScript) > 0 {
				add(o.PkScript)
			}
		}
	}
	sort.Slice(out, func(i, j int) bool { return bytes.Compare(out[i], out[j]) < 0 })
	return out
}

func evalC14Block(c c14Block, o *Obs) error {
	blk := c.build()
	f, err := builder.BuildBasicFilter(blk)
	if err != nil {
		return fmt.Errorf("BuildBasicFilter failed: %v", err)
	}
	bh := blk.BlockHash()
	var key [16]byte
	copy(key[:], bh[:16])
	entries := refBasicEntries(blk.Transactions, true)
	want := refGCSEncode(19, refGCSValues(key, 784931, entries))
	if len(entries) == 0 {
		want = nil
	} else {
		o.NT()
	}
	got, _ := f.Bytes()
	if f.N() != uint32(len(entries)) || f.P() != 19 || !bytes.Equal(got, want) {
		return fmt.Errorf("BuildBasicFilter(block %v, %d txs): N=%d P=%d bytes %x; expected N=%d (outpoints of non-coinbase inputs and non-empty "+
			"output scripts, de-duplicated), bytes %x", bh, len(blk.Transactions), f.N(), f.P(), clip(got), len(entries), clip(want))
	}
	o.Class("C14:basic-filter")
	// mempool filter: zero key, no transaction skipped
	mf, err := builder.BuildMempoolFilter(blk.Transactions)
	if err != nil {
		return fmt.Errorf("BuildMempoolFilter failed: %v", err)
	}
	mentries := refBasicEntries(blk.Transactions, false)
	var zero [16]byte
	mwant := refGCSEncode(19, refGCSValues(zero, 784931, mentries))
	if len(mentries) == 0 {
		mwant = nil
	}
	mgot, _ := mf.Bytes()
	if mf.N() != uint32(len(mentries)) || !bytes.Equal(mgot, mwant) {
		return fmt.Errorf("BuildMempoolFilter(%d txs): N=%d bytes %x; expected N=%d bytes %x", len(blk.Transactions), mf.N(), clip(mgot), len(mentries), clip(mwant))
	}
	return nil
}

var kC14Block = register(&Kind[c14Block]{
	Prop: "C14", Name: "blockfilter",
	Gen: func(t *rapid.T) c14Block {
		b := c14Block{Nonce: rapid.Uint32().Draw(t, "nonce")}
		scripts := []HexBytes{{}, {0x51}, {0x76, 0xa9, 0x14}, {0x6a, 0x02, 0xab, 0xcd}, {0x6a}, genBytes(t, "s1", 1, 30), genBytes(t, "s2", 1, 30)}
		if rapid.IntRange(0, 7).Draw(t, "longscripts") == 0 { // every non-empty script is an element, whatever its length or standardness
			for _, n := range []int{520, 521, 9999, 10000, 10001, 65535, 65536, 100000} {
				scripts = append(scripts, HexBytes(bytes.Repeat([]byte{byte(0x50 + n%7)}, n)))
			}
		}
		ntx := rapid.IntRange(1, 30).Draw(t, "ntx")
		for i := 0; i < ntx; i++ {
			var tx c14Tx
			for j := rapid.IntRange(0, 3).Draw(t, "nin"); j > 0; j-- {
				tx.Ins = append(tx.Ins, c14In{Hash: rapid.IntRange(0, 4).Draw(t, "h"), Index: uint32(rapid.IntRange(0, 2).Draw(t, "i"))})
			}
			for j := rapid.IntRange(0, 3).Draw(t, "nout"); j > 0; j-- {
				tx.Outs = append(tx.Outs, scripts[rapid.IntRange(0, len(scripts)-1).Draw(t, "s")])
			}
			b.Txs = append(b.Txs, tx)
		}
		return b
	},
	Eval: evalC14Block,
})

// ---- kind: builder chain ----------------------------------------------------------------

type c14Chain struct {
	Key      HexBytes   `json:"key"`
	P        uint8      `json:"p"`
	M        uint64     `json:"m"`
	Entries  []HexBytes `json:"entries"`
	SetP     int        `json:"set_p"` // -1: not called; else SetP(value) after construction
	SetM     int64      `json:"set_m"` // -1: not called; >=0: SetM(value); -2: SetM(2^32+5)
	UseHash  bool       `json:"use_hash"`
	Prealloc int        `json:"prealloc"` // k>0: Preallocate(k*37) after every k-th entry
	Ctor     int        `json:"ctor"`     // which of the With* constructors / Set* key setters starts the chain
}

func evalC14Chain(c c14Chain, o *Obs) error {
	var key [16]byte
	copy(key[:], c.Key)
	// the 32-byte hash whose first 16 bytes are the key (the rest must not matter)
	var kh chainhash.Hash
	copy(kh[:], key[:])
	for i := 16; i < 32; i++ {
		kh[i] = key[i-16] ^ byte(0xa5+i)
	}
	if dk := builder.DeriveKey(&kh); dk != key {
		return fmt.Errorf("DeriveKey(%x) = %x, want the first 16 bytes", kh[:], dk[:])
	}
	wantErr := c.P > 32 || c.M > 0xffffffff
	p, m := c.P, c.M
	var b *builder.GCSBuilder
	o.Class("C14:builder-ctor=%d", c.Ctor)
	switch c.Ctor {
	case 0:
		b = builder.WithKeyPM(key, c.P, c.M)
	case 1:
		b = builder.WithKeyPNM(key, c.P, uint32(len(c.Entries)/2), c.M)
	case 2:
		b = builder.WithKeyHashPM(&kh, c.P, c.M)
	case 3:
		b = builder.WithKeyHashPNM(&kh, c.P, uint32(len(c.Entries)+3), c.M)
	case 4:
		b, p, m, wantErr = builder.WithKey(key), 19, 784931, false
	case 5:
		b, p, m, wantErr = builder.WithKeyHash(&kh), 19, 784931, false
	case 6:
		b = builder.WithRandomKeyPM(c.P, c.M).SetKey(key)
	case 7:
		b, p, m, wantErr = builder.WithRandomKey().SetKeyFromHash(&kh), 19, 784931, false
	case 8:
		b = builder.WithRandomKeyPNM(c.P, uint32(len(c.Entries)), c.M)
		if rk, err := b.Key(); err == nil {
			key = rk // the filter must be the one for the key the builder reports
		}
	default:
		return hbug("ctor")
	}
	if k2, err := b.Key(); (err != nil) != wantErr || (err == nil && k2 != key) {
		return fmt.Errorf("builder constructor %d: Key() = %x, %v; want %x (error expected: %v)", c.Ctor, k2[:], err, key[:], wantErr)
	}
	if c.SetP >= 0 {
		b = b.SetP(uint8(c.SetP))
		if !wantErr {
			if c.SetP > 32 {
				wantErr = true
			} else {
				p = uint8(c.SetP)
			}
		}
	}
	if c.SetM != -1 {
		v := uint64(c.SetM)
		if c.SetM == -2 {
			v = 1<<32 + 5
		}
		b = b.SetM(v)
		if !wantErr {
			if v > 0xffffffff {
				wantErr = true
			} else {
				m = v
			}
		}
	}
	var entries [][]byte
	seen := map[string]bool{}
	scratch := make([]byte, 4096)
	for i, e := range c.Entries {
		if c.UseHash && i == 0 {
			// the same 32 bytes arrive as a hash and as a plain entry (either order): one element
			var h chainhash.Hash
			copy(h[:], e)
			if len(c.Entries)%2 == 0 {
				b = b.AddEntry(append([]byte{}, h[:]...))
			}
			b = b.AddHash(&h)
			if len(c.Entries)%3 == 0 {
				b = b.AddEntries([][]byte{append([]byte{}, h[:]...)}).AddHash(&h)
			}
			e = h[:]
		} else if i%2 == 0 {
			// entries travel through one scratch buffer that the caller reuses for the next entry
			n := copy(scratch, e)
			b = b.AddEntry(scratch[:n])
			for k := range scratch[:n] {
				scratch[k] ^= 0x3c
			}
		} else {
			n := copy(scratch, e)
			list := [][]byte{scratch[:n]}
			if i%4 == 3 {
				// a nil element in the middle of a list is an (empty) entry like any other, and what follows it counts
				list = [][]byte{nil, scratch[:n]}
				if !seen[""] {
					seen[""] = true
					entries = append(entries, []byte{})
				}
			}
			b = b.AddEntries(list)
			list[len(list)-1] = nil
			for k := range scratch[:n] {
				scratch[k] ^= 0xc3
			}
		}
		if !seen[string(e)] {
			seen[string(e)] = true
			entries = append(entries, append([]byte{}, e...))
		}
		if c.Prealloc > 0 && (i+1)%c.Prealloc == 0 {
			b = b.Preallocate(uint32(c.Prealloc * 37)) // a size hint: entries already added stay
			o.Class("C14:preallocate-mid-chain")
		}
	}
	f, err := b.Build()
	o.NT()
	switch {
	case wantErr:
		o.Class("C14:builder-latched-error")
		if err == nil {
			return fmt.Errorf("builder with P=%d M=%d SetP=%d SetM=%d built a filter although a parameter was invalid", c.P, c.M, c.SetP, c.SetM)
		}
		if _, kerr := b.Key(); kerr == nil {
			return fmt.Errorf("builder error not latched: Key() succeeds after an invalid parameter")
		}
		return nil
	case p == 0 || m == 0:
		o.Class("C14:builder-unset-parameter")
		if err == nil {
			return fmt.Errorf("builder with P=%d M=%d built a filter", p, m)
		}
		// a premature Build is not fatal: once the parameters are set the builder builds
		f2, err := b.SetP(19).SetM(784931).Build()
		if err != nil {
			return fmt.Errorf("builder: Build() before P/M were set failed (as it should), but after SetP(19).SetM(784931) Build() still fails: %v", err)
		}
		want := refGCSEncode(19, refGCSValues(key, 784931, entries))
		if len(entries) == 0 {
			want = nil
		}
		if got, _ := f2.Bytes(); f2.N() != uint32(len(entries)) || !bytes.Equal(got, want) {
			return fmt.Errorf("builder: after a premature Build and SetP/SetM the filter has N=%d bytes %x, want N=%d bytes %x", f2.N(), clip(got), len(entries), clip(want))
		}
		return nil
	}
	if err != nil {
		return fmt.Errorf("builder P=%d M=%d failed: %v", p, m, err)
	}
	o.Class("C14:builder-ok")
	want := refGCSEncode(p, refGCSValues(key, m, entries))
	if len(entries) == 0 {
		want = nil
	}
	got, _ := f.Bytes()
	if f.N() != uint32(len(entries)) || f.P() != p || !bytes.Equal(got, want) {
		return fmt.Errorf("builder chain P=%d M=%d %d distinct entries: N=%d P=%d bytes %x, want %x", p, m, len(entries), f.N(), f.P(), clip(got), clip(want))
	}
	// parameters changed after a Build apply to the next Build
	if p != 21 && uint64(64)<<21 > m {
		if f4, err := b.SetP(21).Build(); err != nil {
			return fmt.Errorf("Build() after SetP(21) failed: %v", err)
		} else if g4, _ := f4.Bytes(); f4.P() != 21 || !bytes.Equal(g4, refGCSEncode(21, refGCSValues(key, m, entries))) && len(entries) > 0 {
			return fmt.Errorf("Build() after SetP(21) returns a filter with P=%d bytes %x (stale result of the previous Build?)", f4.P(), clip(g4))
		}
		b.SetP(p)
	}
	if m2 := m + 1; m2 <= 0xffffffff && len(entries) > 0 {
		if f5, err := b.SetM(m2).Build(); err != nil {
			return fmt.Errorf("Build() after SetM failed: %v", err)
		} else if g5, _ := f5.Bytes(); !bytes.Equal(g5, refGCSEncode(p, refGCSValues(key, m2, entries))) {
			return fmt.Errorf("Build() after SetM(%d) returns bytes %x, want %x (stale result of the previous Build?)", m2, clip(g5), clip(refGCSEncode(p, refGCSValues(key, m2, entries))))
		}
		b.SetM(m)
	}
	// the builder can be used again: same result, and one more entry gives the filter of the larger set
	if f2, err := b.Build(); err != nil {
		return fmt.Errorf("second Build() on the same builder failed: %v", err)
	} else if g2, _ := f2.Bytes(); f2.N() != f.N() || !bytes.Equal(g2, got) {
		return fmt.Errorf("second Build() on the same builder gives N=%d bytes %x, first gave N=%d bytes %x", f2.N(), clip(g2), f.N(), clip(got))
	}
	extra := []byte("one more entry")
	if !seen[string(extra)] {
		f3, err := b.AddEntry(extra).Build()
		want3 := refGCSEncode(p, refGCSValues(key, m, append(append([][]byte{}, entries...), extra)))
		if err != nil {
			return fmt.Errorf("Build() after a further AddEntry failed: %v", err)
		}
		if g3, _ := f3.Bytes(); f3.N() != uint32(len(entries)+1) || !bytes.Equal(g3, want3) {
			return fmt.Errorf("Build() after a further AddEntry: N=%d bytes %x, want N=%d bytes %x", f3.N(), clip(g3), len(entries)+1, clip(want3))
		}
		if g1, _ := f.Bytes(); !bytes.Equal(g1, got) {
			return fmt.Errorf("the filter built first changed when the builder was used again")
		}
	}
	return nil
}

var kC14Chain = register(&Kind[c14Chain]{
	Prop: "C14", Name: "builder",
	Gen: func(t *rapid.T) c14Chain {
		c := c14Chain{Key: genBytesN(t, "key", 16), SetP: -1, SetM: -1, UseHash: rapid.Bool().Draw(t, "hash"), Prealloc: rapid.IntRange(0, 4).Draw(t, "prealloc"), Ctor: rapid.IntRange(0, 8).Draw(t, "ctor")}
		c.P = uint8(rapid.SampledFrom([]int{0, 1, 8, 19, 20, 31, 32, 33, 40, 255}).Draw(t, "p"))
		c.M = rapid.SampledFrom([]uint64{0, 1, 784931, 1 << 20, 0xffffffff, 1 << 32, 1 << 40}).Draw(t, "m")
		if c.M > uint64(64)<<c.P && c.P <= 32 { // keep unary runs short
			c.M = uint64(64) << c.P
			if c.M > 0xffffffff {
				c.M = 0xffffffff
			}
		}
		if rapid.IntRange(0, 3).Draw(t, "setp") == 0 {
			c.SetP = rapid.SampledFrom([]int{19, 20, 32, 33, 200}).Draw(t, "setpv")
		}
		if rapid.IntRange(0, 3).Draw(t, "setm") == 0 {
			c.SetM = rapid.SampledFrom([]int64{784931, 1 << 24, -2}).Draw(t, "setmv")
			if c.SetM > 0 && c.SetP < 0 && c.P < 14 {
				c.SetM = int64(uint64(32) << c.P)
			}
		}
		n := rapid.IntRange(0, 12).Draw(t, "n")
		pool := []HexBytes{genBytes(t, "e1", 0, 20), genBytes(t, "e2", 1, 40), {1}, {}}
		for i := 0; i < n; i++ {
			if rapid.Bool().Draw(t, "dup") {
				c.Entries = append(c.Entries, pool[rapid.IntRange(0, 3).Draw(t, "pi")])
			} else {
				c.Entries = append(c.Entries, genBytes(t, "e", 0, 40))
			}
		}
		return c
	},
	Eval: evalC14Chain,
})

// ---- kind: filter headers computed by several goroutines at once ---------------------------------
// MakeHeaderForFilter and GetFilterHash are pure functions of their arguments; callers (a node serving
// cfheaders to several peers) run them side by side on unrelated filters.

type c14Hdr struct {
	Seed   uint32 `json:"seed"`
	G      int    `json:"goroutines"`
	Rounds int    `json:"rounds"`
}

func evalC14Hdr(c c14Hdr, o *Obs) error {
	if c.G < 2 || c.G > 16 || c.Rounds < 1 || c.Rounds > 100000 {
		return hbug("bad header case")
	}
	o.NT()
	o.Class("C14:headers-side-by-side")
	errs := make(chan error, c.G)
	var wg sync.WaitGroup
	for g := 0; g < c.G; g++ {
		g := g
		wg.Add(1)
		go func() {
			defer wg.Done()
			defer func() {
				if r := recover(); r != nil {
					errs <- fmt.Errorf("panic in MakeHeaderForFilter: %v", r)
				}
			}()
			var key [16]byte
			key[0] = byte(g)
			f, err := gcs.BuildGCSFilter(19, 784931, key, [][]byte{derivedItem(c.Seed+uint32(g), 1), derivedItem(c.Seed+uint32(g), 2)})
			if err != nil {
				errs <- err
				return
			}
			nb, _ := f.NBytes()
			fh := dsha256(nb)
			for r := 0; r < c.Rounds; r++ {
				var prev chainhash.Hash
				copy(prev[:], dsha256([]byte{byte(g), byte(r), byte(r >> 8)}))
				hd, err := builder.MakeHeaderForFilter(f, prev)
				if err != nil || !bytes.Equal(hd[:], dsha256(append(append([]byte{}, fh...), prev[:]...))) {
					errs <- fmt.Errorf("goroutine %d round %d: MakeHeaderForFilter = %x (err %v), want dSHA256(filterhash||prev) - while %d other goroutines compute headers of unrelated filters", g, r, hd[:], err, c.G-1)
					return
				}
			}
		}()
	}
	wg.Wait()
	select {
	case err := <-errs:
		return err
	default:
		return nil
	}
}

var kC14Hdr = register(&Kind[c14Hdr]{Prop: "C14", Name: "headers-concurrent", Eval: evalC14Hdr,
	Gen: func(t *rapid.T) c14Hdr {
		return c14Hdr{Seed: rapid.Uint32().Draw(t, "seed"), G: rapid.IntRange(2, 8).Draw(t, "g"), Rounds: rapid.SampledFrom([]int{500, 2000}).Draw(t, "rounds")}
	}})

func TestC14(t *testing.T) {
	propTest(t, "C14", func(ev *Ev) {
		ev.Rule("(encode) key x P 0..32 x M x multisets up to N=6000 (quick) / 100000 (thorough), a quarter forced into the carry path of "+
			"the 64x64->128 multiply (P>=20, N>=4096, M just above 2^P): Bytes() == independent Golomb-Rice encoding of "+
			"floor(SipHash*N*M/2^64) (bits.Mul64), N/P, NBytes/PBytes/NPBytes concatenations, FromBytes/FromNBytes rebuild equal "+
			"filters answering 20 probes identically, GetFilterHash/MakeHeaderForFilter == dSHA256; (blockfilter) blocks of 1..30 "+
			"transactions with empty/duplicate scripts and duplicate outpoints: BuildBasicFilter == reference encoding of "+
			"dedup(outpoints of inputs of all but the first transaction + non-empty output scripts) keyed by the first 16 bytes of "+
			"the block hash, P=19, M=784931; BuildMempoolFilter likewise with zero key; (builder) With*/Set*/Add* chains incl. "+
			"P>32, M>2^32 (latched error), P=0/M=0. Non-trivial = N>=1 (chains: always).",
			"reference SipHash pinned to the paper's vectors and cross-checked against aead/siphash", "crypto/sha256")
		refSelfGCS(ev)
		if len(ev.harnessErrors) > 0 {
			return
		}
		// every run also sees sets around 2^16 members (one per shard), whatever the random sizes were
		{
			n := []int{65535, 65536, 65537, 70001}[shard%4]
			kC14.One(ev, c14Case{D: gcsData{Key: HexBytes(bytes.Repeat([]byte{byte(shard + 1)}, 16)), P: uint8(19 + shard%4), M: 784931, N: n, Seed: uint32(seedEnv)}})
		}
		// the 128-bit product hash x N*M in its corners: N*M = 2^48-1 (low word all ones) with items whose hash has its
		// top 16 bits set (found by search), so that every partial product is as large as it gets
		{
			var key [16]byte
			for i := range key {
				key[i] = byte(0x60 + shard + i)
			}
			var extra []HexBytes
			for i := 0; i < 1<<19 && len(extra) < 6; i++ {
				it := derivedItem(uint32(seedEnv)+4242, i)
				if refSipHash(key, it)>>48 == 0xffff {
					extra = append(extra, it)
				}
			}
			for _, nm := range [][2]uint64{{255, 1<<40 + 1<<32 + 1<<24 + 1<<16 + 1<<8 + 1}, {65535, 1<<32 + 1<<16 + 1}, {15, (1<<48 - 1) / 15}} {
				if int(nm[0]) > len(extra) {
					kC14.One(ev, c14Case{D: gcsData{Key: HexBytes(key[:]), P: uint8(28 + shard%4), M: nm[1], N: int(nm[0]) - len(extra), Seed: uint32(seedEnv) + 7, Extra: extra}})
				}
			}
		}
		kC14.Run(t, ev, perShard(pick(1200, 40000)))
		// blocks of hundreds of transactions, and one whose inputs and outputs exceed 2^16 together
		kC14Block.One(ev, c14Block{Nonce: uint32(seedEnv), Txs: []c14Tx{{Ins: []c14In{{Hash: 1}}, Outs: []HexBytes{{0x51}}}}, BigTxs: []int{255, 256, 300, 1000}[shard%4]})
		if shard == 0 {
			kC14Block.One(ev, c14Block{Nonce: uint32(seedEnv) + 1, Txs: []c14Tx{{Ins: []c14In{{Hash: 1}}, Outs: []HexBytes{{0x51}}}}, BigOuts: 66000})
		}
		kC14Block.Run(t, ev, perShard(pick(1500, 500000)))
		kC14Chain.Run(t, ev, perShard(pick(1500, 500000)))
		runConcurrent(kC14Block, t, ev, perShard(pick(100, 10000)), 6)
		runConcurrent(kC14, t, ev, perShard(pick(100, 10000)), 6)
		kC14Hdr.Run(t, ev, perShard(pick(12, 400)))
		ev.requireClasses("C14:P%8=0", "C14:P%8=3", "C14:P%8=7", "C14:N*M-high-half-nonzero", "C14:basic-filter",
			"C14:builder-latched-error", "C14:builder-unset-parameter", "C14:builder-ok")
	})
}
