package harness

// C18 BIP69 sorting is a correct, non-destructive, idempotent permutation.

import (
	"bytes"
	"fmt"
	"math"
	"sort"
	"testing"

	"github.com/gcash/bchd/chaincfg/chainhash"
	"github.com/gcash/bchd/wire"
	"github.com/gcash/bchutil/txsort"
	"pgregory.net/rapid"
)

type c18In struct {
	Hash   HexBytes `json:"hash"` // up to 32 bytes, zero padded on the right (internal byte order)
	Index  uint32   `json:"index"`
	Seq    uint32   `json:"seq"`
	Script HexBytes `json:"script"`
}

type c18Out struct {
	Value  int64    `json:"value"`
	Script HexBytes `json:"script"`
	Token  bool     `json:"token"`
}

type c18Case struct {
	Ins  []c18In  `json:"ins"`
	Outs []c18Out `json:"outs"`
	// the same *wire.TxIn / *wire.TxOut object listed again (positions into Ins / Outs)
	DupIn  []int `json:"dup_in,omitempty"`
	DupOut []int `json:"dup_out,omitempty"`
	// this many further inputs and outputs, derived from their number (for counts past 2^16)
	Big int `json:"big,omitempty"`
}

func (c c18Case) build() *wire.MsgTx {
	tx := wire.NewMsgTx(2)
	tx.LockTime = 77
	for _, in := range c.Ins {
		var h chainhash.Hash
		copy(h[:], in.Hash)
		ti := wire.NewTxIn(wire.NewOutPoint(&h, in.Index), append([]byte{}, in.Script...))
		ti.Sequence = in.Seq
		tx.AddTxIn(ti)
	}
	for i, out := range c.Outs {
		td := wire.TokenData{}
		if out.Token {
			td.CategoryID[0] = 9
			td.Amount = 5
			td.BitField = wire.HAS_AMOUNT
			if i%2 == 1 { // every other token output is its own token: amount, or NFT with a commitment of its own, or both
				td = c10TokenData(1+(i/2)%3, i)
			}
		}
		tx.AddTxOut(wire.NewTxOut(out.Value, append([]byte{}, out.Script...), td))
	}
	for i := 0; i < c.Big; i++ {
		var h chainhash.Hash
		x := uint32(i)*2654435761 + 12345
		for j := 0; j < 32; j += 4 {
			x = x*1664525 + 1013904223
			h[j], h[j+1], h[j+2], h[j+3] = byte(x>>24), byte(x>>16), byte(x>>8), byte(x)
		}
		h[31], h[30] = byte(i%3), 0 // few distinct leading (most significant) bytes: the order is decided deep inside
		tx.AddTxIn(wire.NewTxIn(wire.NewOutPoint(&h, x%5), nil))
		tx.AddTxOut(wire.NewTxOut(int64(x%1000), []byte{byte(x >> 8), byte(x >> 16)}, wire.TokenData{}))
	}
	for _, d := range c.DupIn {
		if len(tx.TxIn) > 0 {
			tx.TxIn = append(tx.TxIn, tx.TxIn[((d%len(tx.TxIn))+len(tx.TxIn))%len(tx.TxIn)])
		}
	}
	for _, d := range c.DupOut {
		if len(tx.TxOut) > 0 {
			tx.TxOut = append(tx.TxOut, tx.TxOut[((d%len(tx.TxOut))+len(tx.TxOut))%len(tx.TxOut)])
		}
	}
	return tx
}

// refInLess: previous txid read as a big-endian number (= displayed form = internal
// bytes reversed), then output index.
func refInCmp(a, b *wire.TxIn) int {
	for i := 31; i >= 0; i-- {
		x, y := a.PreviousOutPoint.Hash[i], b.PreviousOutPoint.Hash[i]
		if x != y {
			if x < y {
				return -1
			}
			return 1
		}
	}
	switch {
	case a.PreviousOutPoint.Index < b.PreviousOutPoint.Index:
		return -1
	case a.PreviousOutPoint.Index > b.PreviousOutPoint.Index:
		return 1
	}
	return 0
}

func refOutCmp(a, b *wire.TxOut) int {
	switch {
	case a.Value < b.Value:
		return -1
	case a.Value > b.Value:
		return 1
	}
	// lexicographic on script bytes, a proper prefix sorts first
	n := len(a.PkScript)
	if len(b.PkScript) < n {
		n = len(b.PkScript)
	}
	for i := 0; i < n; i++ {
		if a.PkScript[i] != b.PkScript[i] {
			if a.PkScript[i] < b.PkScript[i] {
				return -1
			}
			return 1
		}
	}
	switch {
	case len(a.PkScript) < len(b.PkScript):
		return -1
	case len(a.PkScript) > len(b.PkScript):
		return 1
	}
	return 0
}

func refSorted(tx *wire.MsgTx) bool {
	for i := 1; i < len(tx.TxIn); i++ {
		if refInCmp(tx.TxIn[i-1], tx.TxIn[i]) > 0 {
			return false
		}
	}
	for i := 1; i < len(tx.TxOut); i++ {
		if refOutCmp(tx.TxOut[i-1], tx.TxOut[i]) > 0 {
			return false
		}
	}
	return true
}

func inFull(in *wire.TxIn) string {
	return fmt.Sprintf("%x:%d:%x:%d", in.PreviousOutPoint.Hash[:], in.PreviousOutPoint.Index, in.SignatureScript, in.Sequence)
}

func outFull(o *wire.TxOut) string {
	return fmt.Sprintf("%d:%x:%x:%x:%d:%d", o.Value, o.PkScript, o.TokenData.CategoryID[:], o.TokenData.Commitment, o.TokenData.Amount, o.TokenData.BitField)
}

func multiset(ss []string) string {
	s := append([]string{}, ss...)
	sort.Strings(s)
	return fmt.Sprint(s)
}

func keySeq(tx *wire.MsgTx) string {
	var b bytes.Buffer
	for _, in := range tx.TxIn {
		fmt.Fprintf(&b, "%x:%d|", in.PreviousOutPoint.Hash[:], in.PreviousOutPoint.Index)
	}
	b.WriteString("//")
	for _, o := range tx.TxOut {
		fmt.Fprintf(&b, "%d:%x|", o.Value, o.PkScript)
	}
	return b.String()
}

func evalC18(c c18Case, o *Obs) error {
	tx := c.build()
	before, _ := serializeTx(tx)
	inPtr := append([]*wire.TxIn{}, tx.TxIn...)
	outPtr := append([]*wire.TxOut{}, tx.TxOut...)
	desc := fmt.Sprintf("tx with %d inputs / %d outputs", len(tx.TxIn), len(tx.TxOut))

	wantSorted := refSorted(tx)
	if got := txsort.IsSorted(tx); got != wantSorted {
		return fmt.Errorf("%s: IsSorted = %v, BIP69 order holds = %v", desc, got, wantSorted)
	}
	s := txsort.Sort(tx)
	// other transactions are sorted before s is examined: results must not share storage between calls
	rev := c.build()
	for i, j := 0, len(rev.TxIn)-1; i < j; i, j = i+1, j-1 {
		rev.TxIn[i], rev.TxIn[j] = rev.TxIn[j], rev.TxIn[i]
	}
	for i, j := 0, len(rev.TxOut)-1; i < j; i, j = i+1, j-1 {
		rev.TxOut[i], rev.TxOut[j] = rev.TxOut[j], rev.TxOut[i]
	}
	for _, in := range rev.TxIn {
		in.PreviousOutPoint.Index ^= 0x7
	}
	sr := txsort.Sort(rev)
	txsort.InPlaceSort(rev)
	if keySeq(sr) != keySeq(rev) {
		return fmt.Errorf("%s: Sort and InPlaceSort disagree on a second transaction", desc)
	}
	// original untouched
	after, _ := serializeTx(tx)
	if !bytes.Equal(before, after) {
		return fmt.Errorf("%s: Sort modified the original transaction", desc)
	}
	for i := range inPtr {
		if tx.TxIn[i] != inPtr[i] {
			return fmt.Errorf("%s: Sort reordered the original's inputs", desc)
		}
	}
	for i := range outPtr {
		if tx.TxOut[i] != outPtr[i] {
			return fmt.Errorf("%s: Sort reordered the original's outputs", desc)
		}
	}
	// the result is a copy: a distinct object whose elements are not the original's
	if s == tx {
		return fmt.Errorf("%s: Sort returned the caller's own transaction object, not a copy (sorted before: %v)", desc, wantSorted)
	}
	for _, a := range s.TxIn {
		for _, b := range inPtr {
			if a == b {
				return fmt.Errorf("%s: the sorted copy shares an input object with the original", desc)
			}
		}
	}
	for _, a := range s.TxOut {
		for _, b := range outPtr {
			if a == b {
				return fmt.Errorf("%s: the sorted copy shares an output object with the original", desc)
			}
		}
	}
	// permutation with identical other fields
	if s.Version != tx.Version || s.LockTime != tx.LockTime || len(s.TxIn) != len(tx.TxIn) || len(s.TxOut) != len(tx.TxOut) {
		return fmt.Errorf("%s: sorted copy differs in version/locktime/counts", desc)
	}
	var a, b []string
	for i := range tx.TxIn {
		a, b = append(a, inFull(tx.TxIn[i])), append(b, inFull(s.TxIn[i]))
	}
	if multiset(a) != multiset(b) {
		return fmt.Errorf("%s: sorted copy's inputs are not a permutation of the original's: %v vs %v", desc, b, a)
	}
	a, b = nil, nil
	for i := range tx.TxOut {
		a, b = append(a, outFull(tx.TxOut[i])), append(b, outFull(s.TxOut[i]))
	}
	if multiset(a) != multiset(b) {
		return fmt.Errorf("%s: sorted copy's outputs are not a permutation of the original's: %v vs %v", desc, b, a)
	}
	if !refSorted(s) {
		return fmt.Errorf("%s: Sort result is not in BIP69 order: %s", desc, keySeq(s))
	}
	if !txsort.IsSorted(s) {
		return fmt.Errorf("%s: IsSorted(Sort(tx)) is false", desc)
	}
	if s2 := txsort.Sort(s); keySeq(s2) != keySeq(s) {
		return fmt.Errorf("%s: Sort is not idempotent", desc)
	}
	// editing the copy must not reach the original
	if len(s.TxIn) > 0 {
		s.TxIn[0].Sequence ^= 0x55
		s.TxIn[0].PreviousOutPoint.Index ^= 0x40
	}
	if len(s.TxOut) > 0 {
		s.TxOut[0].Value ^= 0x33
	}
	for _, in := range s.TxIn {
		if len(in.SignatureScript) > 0 {
			in.SignatureScript[0] ^= 0x81
		}
	}
	for _, out := range s.TxOut {
		if len(out.PkScript) > 0 {
			out.PkScript[len(out.PkScript)-1] ^= 0x81
		}
		// (not the NFT commitment bytes: the dependency's MsgTx.Copy shares them between copy and original, which
		// is outside what C18 states - see DESIGN.md 8.3)
	}
	s.LockTime++
	if again, _ := serializeTx(tx); !bytes.Equal(before, again) {
		return fmt.Errorf("%s: modifying the sorted copy changed the original transaction", desc)
	}
	// one inversion anywhere: the sorted transaction with two neighbouring entries (of different keys) exchanged is
	// not sorted, whichever pair it is
	if n := len(s.TxIn); n >= 2 && n <= 400 {
		sw := txsort.Sort(tx)
		for p := 0; p+1 < n; p++ {
			if refInCmp(sw.TxIn[p], sw.TxIn[p+1]) != 0 {
				sw.TxIn[p], sw.TxIn[p+1] = sw.TxIn[p+1], sw.TxIn[p]
				if txsort.IsSorted(sw) {
					return fmt.Errorf("%s: IsSorted is true although inputs %d and %d (of %d) are out of order", desc, p, p+1, n)
				}
				sw.TxIn[p], sw.TxIn[p+1] = sw.TxIn[p+1], sw.TxIn[p]
			}
		}
		for p := 0; p+1 < len(sw.TxOut) && len(sw.TxOut) <= 400; p++ {
			if refOutCmp(sw.TxOut[p], sw.TxOut[p+1]) != 0 {
				sw.TxOut[p], sw.TxOut[p+1] = sw.TxOut[p+1], sw.TxOut[p]
				if txsort.IsSorted(sw) {
					return fmt.Errorf("%s: IsSorted is true although outputs %d and %d (of %d) are out of order", desc, p, p+1, len(sw.TxOut))
				}
				sw.TxOut[p], sw.TxOut[p+1] = sw.TxOut[p+1], sw.TxOut[p]
			}
		}
	}
	cp := c.build()
	heldIn, heldOut := cp.TxIn, cp.TxOut // the caller's own slices, and the objects in them
	inSet, outSet := map[*wire.TxIn]int{}, map[*wire.TxOut]int{}
	for _, p := range cp.TxIn {
		inSet[p]++
	}
	for _, p := range cp.TxOut {
		outSet[p]++
	}
	txsort.InPlaceSort(cp)
	// in place: the transaction's own entries were permuted - same objects, same slices - not replaced by copies
	for i, p := range cp.TxIn {
		if inSet[p]--; inSet[p] < 0 || heldIn[i] != p {
			return fmt.Errorf("%s: InPlaceSort did not permute the caller's inputs in place (entry %d is a new object, or the caller's slice is not the sorted one)", desc, i)
		}
	}
	for i, p := range cp.TxOut {
		if outSet[p]--; outSet[p] < 0 || heldOut[i] != p {
			return fmt.Errorf("%s: InPlaceSort did not permute the caller's outputs in place (entry %d is a new object, or the caller's slice is not the sorted one)", desc, i)
		}
	}
	s = txsort.Sort(tx)
	if keySeq(cp) != keySeq(s) {
		return fmt.Errorf("%s: InPlaceSort order %s differs from Sort order %s", desc, keySeq(cp), keySeq(s))
	}
	// "sorting in place yields the same order": also among entries whose keys tie but which differ elsewhere
	// (sequence number, signature script, token data).  BIP69 leaves their order open, but the two functions
	// must arrange the same transaction identically, or one logical transaction gets two ids.
	if a, _ := serializeTx(cp); true {
		if b, _ := serializeTx(s); !bytes.Equal(a, b) {
			return fmt.Errorf("%s: InPlaceSort and Sort arrange entries with equal keys differently: the two results serialise differently (%d inputs, %d outputs)", desc, len(tx.TxIn), len(tx.TxOut))
		}
	}
	// non-trivial: >=2 of something with a tie or an inversion
	nt := false
	for i := 1; i < len(tx.TxIn); i++ {
		if refInCmp(tx.TxIn[i-1], tx.TxIn[i]) >= 0 {
			nt = true
		}
	}
	for i := 1; i < len(tx.TxOut); i++ {
		if refOutCmp(tx.TxOut[i-1], tx.TxOut[i]) >= 0 {
			nt = true
		}
	}
	if nt {
		o.NT()
	}
	if wantSorted {
		o.Class("C18:already-sorted")
	} else {
		o.Class("C18:unsorted")
	}
	return nil
}

var c18HashAlphabet = []HexBytes{
	{1},                           // differs from the next only in the first internal byte (least significant when displayed)
	{2},                           //
	append(make(HexBytes, 31), 1), // differs in the last internal byte (most significant when displayed)
}

func genC18(t *rapid.T) c18Case {
	var c c18Case
	big := rapid.IntRange(0, 19).Draw(t, "big") == 0
	nin := rapid.IntRange(0, 8).Draw(t, "nin")
	nout := rapid.IntRange(0, 8).Draw(t, "nout")
	if big {
		nin, nout = rapid.IntRange(50, 300).Draw(t, "ninb"), rapid.IntRange(50, 300).Draw(t, "noutb")
	}
	// pool of hashes sharing long prefixes/suffixes
	base := genBytesN(t, "base", 32)
	mkHash := func() HexBytes {
		switch rapid.IntRange(0, 4).Draw(t, "hcls") {
		case 0:
			return c18HashAlphabet[rapid.IntRange(0, 2).Draw(t, "ha")]
		case 1: // same as base except one byte
			h := append(HexBytes{}, base...)
			h[rapid.SampledFrom([]int{0, 1, 15, 30, 31}).Draw(t, "hb")] ^= byte(rapid.IntRange(1, 255).Draw(t, "hx"))
			return h
		case 2:
			return append(HexBytes{}, base...)
		default:
			return genBytesN(t, "h", 32)
		}
	}
	// a locking script may begin with 0xef and even look like a CashToken prefix; it is still just a script
	tokenLike := append(append(HexBytes{0xef}, bytes.Repeat([]byte{byte(rapid.IntRange(0, 255).Draw(t, "tl"))}, 32)...), 0x10, 0x05, 0x51)
	scripts := []HexBytes{{}, {0}, {0, 0}, {1}, {0, 0xff}, genBytes(t, "s", 0, 30), tokenLike, append(HexBytes{0xef}, genBytes(t, "ef", 0, 40)...)}
	for i := 0; i < nin; i++ {
		idx := uint32(rapid.IntRange(0, 3).Draw(t, "idx"))
		if rapid.IntRange(0, 2).Draw(t, "bigidx") == 0 { // indices whose byte order matters
			idx = rapid.SampledFrom([]uint32{255, 256, 257, 511, 512, 65535, 65536, 1 << 24, 0x01000001, 0xfffffffe, 0xffffffff}).Draw(t, "idxb")
		}
		c.Ins = append(c.Ins, c18In{Hash: mkHash(), Index: idx,
			Seq: rapid.Uint32().Draw(t, "seq"), Script: scripts[rapid.IntRange(0, len(scripts)-1).Draw(t, "ss")]})
	}
	if rapid.IntRange(0, 11).Draw(t, "coinbase") == 0 {
		// the shape of a coinbase (one input, null outpoint), and shapes one step away from it: a transaction like any other
		null := c18In{Hash: make(HexBytes, 32), Index: 0xffffffff, Seq: 0xffffffff, Script: HexBytes{3, 1, 2, 3}}
		switch rapid.IntRange(0, 2).Draw(t, "cbshape") {
		case 0:
			c.Ins = []c18In{null}
		case 1:
			c.Ins = append([]c18In{null}, c.Ins...)
		default:
			null.Index = 0
			c.Ins = []c18In{null}
		}
		if nout < 2 {
			nout = 3
		}
	}
	for i := 0; i < nout; i++ {
		v := rapid.SampledFrom([]int64{0, 1, 2, 2100000000000000, math.MaxInt64, -1, math.MinInt64}).Draw(t, "v")
		if rapid.Bool().Draw(t, "vr") {
			v = rapid.Int64Range(0, 1000).Draw(t, "vu")
		}
		sc := scripts[rapid.IntRange(0, len(scripts)-1).Draw(t, "os")]
		if rapid.IntRange(0, 3).Draw(t, "pre") == 0 && len(c.Outs) > 0 { // prefix / extension of an earlier script
			prev := c.Outs[rapid.IntRange(0, len(c.Outs)-1).Draw(t, "pi")].Script
			if rapid.Bool().Draw(t, "ext") || len(prev) == 0 {
				sc = append(append(HexBytes{}, prev...), byte(rapid.IntRange(0, 255).Draw(t, "eb")))
			} else {
				sc = append(HexBytes{}, prev[:len(prev)-1]...)
			}
		}
		c.Outs = append(c.Outs, c18Out{Value: v, Script: sc, Token: rapid.IntRange(0, 4).Draw(t, "tok") == 0})
	}
	if rapid.IntRange(0, 5).Draw(t, "dups") == 0 { // the same object listed twice
		for k := rapid.IntRange(1, 3).Draw(t, "ndup"); k > 0; k-- {
			c.DupIn = append(c.DupIn, rapid.IntRange(0, 300).Draw(t, "di"))
			c.DupOut = append(c.DupOut, rapid.IntRange(0, 300).Draw(t, "do"))
		}
	}
	if rapid.IntRange(0, 3).Draw(t, "presort") == 0 { // already sorted inputs
		tx := c.build()
		idx := seqInts(len(c.Ins))
		sort.SliceStable(idx, func(a, b int) bool { return refInCmp(tx.TxIn[idx[a]], tx.TxIn[idx[b]]) < 0 })
		ins := make([]c18In, len(idx))
		for i, j := range idx {
			ins[i] = c.Ins[j]
		}
		c.Ins = ins
		odx := seqInts(len(c.Outs))
		sort.SliceStable(odx, func(a, b int) bool { return refOutCmp(tx.TxOut[odx[a]], tx.TxOut[odx[b]]) < 0 })
		outs := make([]c18Out, len(odx))
		for i, j := range odx {
			outs[i] = c.Outs[j]
		}
		c.Outs = outs
	}
	return c
}

var kC18 = register(&Kind[c18Case]{Prop: "C18", Name: "sort", Gen: genC18, Eval: evalC18})

func exhaustiveC18(ev *Ev) {
	// inputs: 6 keys = 3 hashes x 2 indices, all arrangements with repetition of k<=6
	type ik struct {
		h HexBytes
		i uint32
	}
	var ikeys []ik
	for _, h := range c18HashAlphabet {
		for i := uint32(0); i < 2; i++ {
			ikeys = append(ikeys, ik{h, i})
		}
	}
	var n int64
	idx := 0
	failed := false
	var recI func(cur []c18In, k int)
	recI = func(cur []c18In, k int) {
		if failed {
			return
		}
		idx++
		if idx%nShards == shard {
			n++
			c := c18Case{Ins: cur}
			if err := safeEval(evalC18, c, &Obs{}); err != nil {
				failed = true
				kC18.One(ev, c18Case{Ins: append([]c18In{}, cur...)})
				return
			}
		}
		if len(cur) == k {
			return
		}
		for j, key := range ikeys {
			recI(append(cur, c18In{Hash: key.h, Index: key.i, Seq: uint32(len(cur)*10 + j)}), k)
		}
	}
	recI(nil, 6)
	ev.Bulk("C18:exh-inputs<=6-over-6-keys", n, n)
	ev.Exhaustive("all arrangements with repetition of <=6 inputs over 3 hashes (differing in first / last byte) x 2 indices", 55987)

	// outputs: amounts {0,1,max} x scripts {"",00,0000,01,00ff}
	type ok struct {
		v int64
		s HexBytes
	}
	var okeys []ok
	for _, v := range []int64{0, 1, 2100000000000000} {
		for _, s := range []HexBytes{{}, {0}, {0, 0}, {1}, {0, 0xff}} {
			okeys = append(okeys, ok{v, s})
		}
	}
	n, idx = 0, 0
	maxK := pick(4, 5)
	var recO func(cur []c18Out)
	recO = func(cur []c18Out) {
		if failed {
			return
		}
		idx++
		if idx%nShards == shard {
			n++
			c := c18Case{Outs: cur}
			if err := safeEval(evalC18, c, &Obs{}); err != nil {
				failed = true
				kC18.One(ev, c18Case{Outs: append([]c18Out{}, cur...)})
				return
			}
		}
		if len(cur) == maxK {
			return
		}
		for _, key := range okeys {
			recO(append(cur, c18Out{Value: key.v, Script: key.s}))
		}
	}
	recO(nil)
	ev.Bulk(fmt.Sprintf("C18:exh-outputs<=%d-over-15-keys", maxK), n, n)
	size := int64(1 + 15 + 225 + 3375 + 50625)
	if maxK == 5 {
		size += 759375
	}
	ev.Exhaustive(fmt.Sprintf("all arrangements with repetition of <=%d outputs over amounts {0,1,21e14} x scripts {'',00,0000,01,00ff}", maxK), size)
	ev.Sample("sort", c18Case{Outs: []c18Out{{Value: 1, Script: HexBytes{0, 0}}, {Value: 1, Script: HexBytes{0}}}})
}

func TestC18(t *testing.T) {
	propTest(t, "C18", func(ev *Ev) {
		ev.Rule("exhaustive: every arrangement (with repetition) of <=6 inputs over 3 hashes (differing only in the first / only in the "+
			"last byte) x 2 indices, and of <=4 (thorough 5) outputs over amounts {0,1,21e14} x scripts {'',00,0000,01,00ff} (prefix "+
			"relations); rapid: 0..8 (sometimes 50..300) inputs/outputs, hashes sharing long prefixes/suffixes, amounts incl. 0, "+
			"21e14 and MaxInt64, scripts that are prefixes/extensions of each other, distinct sequence numbers / signature scripts "+
			"/ token data on tied keys, a quarter pre-sorted. Oracles: reference comparator (txid as big-endian number then index; "+
			"amount then lexicographic script), multiset equality on full content, original byte-identical with the same pointers "+
			"in the same order, InPlaceSort same key sequence, IsSorted <=> reference sortedness, idempotence. Non-trivial = a key "+
			"tie or inversion between neighbours.",
			"which order elements with equal keys end up in is not prescribed (sort.Sort is not stable); only that Sort and InPlaceSort arrange the same transaction identically")
		exhaustiveC18(ev)
		// every run also sorts one transaction with more than 2^16 inputs and outputs (per shard)
		kC18.One(ev, c18Case{Big: []int{65537, 65536, 70001, 65600}[shard%4], Ins: []c18In{{Hash: HexBytes{1}, Index: 3}}, Outs: []c18Out{{Value: 5}}})
		kC18.Run(t, ev, perShard(pick(6000, 3000000)))
		runConcurrent(kC18, t, ev, perShard(pick(150, 15000)), 8)
		ev.requireClasses("C18:already-sorted", "C18:unsorted")
	})
}
