package harness

// Framework shared by all checks: evidence collector, kinds (generate / evaluate /
// replay), known-findings file, panic attribution.  See /verif/DESIGN.md section 2.

import (
	"bufio"
	"encoding/binary"
	"encoding/hex"
	"encoding/json"
	"errors"
	"flag"
	"fmt"
	"hash/fnv"
	"os"
	"path/filepath"
	"runtime/debug"
	"sort"
	"strconv"
	"strings"
	"sync"
	"testing"
	"time"

	"pgregory.net/rapid"
)

// ---------------------------------------------------------------------------------
// environment

func envInt(name string, def int) int {
	if s := os.Getenv(name); s != "" {
		if v, err := strconv.Atoi(s); err == nil {
			return v
		}
	}
	return def
}

func envStr(name, def string) string {
	if s := os.Getenv(name); s != "" {
		return s
	}
	return def
}

var (
	verifRoot = envStr("VERIF_ROOT", "/verif")
	tier      = envStr("VERIF_TIER", "quick")
	seedEnv   = envInt("VERIF_SEED", 1)
	shard     = envInt("VERIF_SHARD", 0)
	nShards   = envInt("VERIF_NSHARDS", 1)
	outDir    = envStr("VERIF_OUT", "")
)

func thorough() bool { return tier == "thorough" }

// pick returns q in the quick tier and th in the thorough tier.
func pick(q, th int) int {
	if thorough() {
		return th
	}
	return q
}

// perShard splits a total case count over the shards (at least 1).
func perShard(total int) int {
	n := total / nShards
	if n < 1 {
		n = 1
	}
	return n
}

// ---------------------------------------------------------------------------------
// hex bytes: readable in samples and replay files

type HexBytes []byte

func (h HexBytes) MarshalJSON() ([]byte, error) {
	return json.Marshal(hex.EncodeToString(h))
}

func (h *HexBytes) UnmarshalJSON(b []byte) error {
	var s string
	if err := json.Unmarshal(b, &s); err != nil {
		return err
	}
	d, err := hex.DecodeString(s)
	if err != nil {
		return err
	}
	*h = d
	return nil
}

// ---------------------------------------------------------------------------------
// known findings

type finding struct {
	fixed bool
	prop  string
	key   string
	text  string
}

var (
	findingsOnce sync.Once
	findings     []finding
)

func loadFindings() {
	findingsOnce.Do(func() {
		f, err := os.Open(filepath.Join(verifRoot, "KNOWN_FINDINGS.txt"))
		if err != nil {
			return
		}
		defer f.Close()
		sc := bufio.NewScanner(f)
		for sc.Scan() {
			line := strings.TrimSpace(sc.Text())
			if line == "" || strings.HasPrefix(line, "#") {
				continue
			}
			var fd finding
			switch {
			case strings.HasPrefix(line, "finding:"):
				line = strings.TrimSpace(strings.TrimPrefix(line, "finding:"))
			case strings.HasPrefix(line, "fixed:"):
				fd.fixed = true
				line = strings.TrimSpace(strings.TrimPrefix(line, "fixed:"))
			default:
				continue
			}
			fields := strings.Fields(line)
			rest := []string{}
			for _, fl := range fields {
				switch {
				case strings.HasPrefix(fl, "property=") && fd.prop == "":
					fd.prop = strings.TrimPrefix(fl, "property=")
				case strings.HasPrefix(fl, "key=") && fd.key == "":
					fd.key = strings.TrimPrefix(fl, "key=")
				default:
					rest = append(rest, fl)
				}
			}
			fd.text = strings.Join(rest, " ")
			findings = append(findings, fd)
		}
	})
}

// isKnown reports whether an (unfixed) finding with this key is listed.
func isKnown(key string) bool {
	loadFindings()
	for _, f := range findings {
		if !f.fixed && f.key == key {
			return true
		}
	}
	return false
}

func findingText(key string) string {
	loadFindings()
	for _, f := range findings {
		if !f.fixed && f.key == key {
			return f.text
		}
	}
	return ""
}

// ---------------------------------------------------------------------------------
// observations made by one evaluation

type Obs struct {
	nontrivial bool
	classes    []string
	excluded   []string
}

// NT marks the case as non-trivial by the property's stated rule.
func (o *Obs) NT() { o.nontrivial = true }

// Class adds the case to a histogram bucket.
func (o *Obs) Class(format string, a ...any) {
	if len(a) == 0 {
		o.classes = append(o.classes, format)
		return
	}
	o.classes = append(o.classes, fmt.Sprintf(format, a...))
}

// Excluded records that this case fell into a listed known finding and was not
// judged.
func (o *Obs) Excluded(key string) { o.excluded = append(o.excluded, key) }

// ---------------------------------------------------------------------------------
// evidence collector (one per test process)

type violation struct {
	Kind   string `json:"kind"`
	Replay string `json:"replay"`
	Msg    string `json:"msg"`
}

type exhaustiveNote struct {
	Space string `json:"space"`
	Size  int64  `json:"size"`
}

type Ev struct {
	mu            sync.Mutex
	prop          string
	start         time.Time
	evaluations   int64
	bulkDistinct  int64
	fps           map[uint64]struct{}
	fpCap         int
	fpOverflow    int64
	classes       map[string]int64
	samplesFirst  []json.RawMessage
	samplesRes    []json.RawMessage
	resSeen       uint64
	exhaustive    []exhaustiveNote
	violations    []violation
	harnessErrors []string
	excluded      map[string]int64
	knownStill    map[string]string
	notes         []string
	rule          string
	required      []string
	assumptions   []string
}

func newEv(prop string) *Ev {
	return &Ev{
		prop:       prop,
		start:      time.Now(),
		fps:        map[uint64]struct{}{},
		fpCap:      400000,
		classes:    map[string]int64{},
		excluded:   map[string]int64{},
		knownStill: map[string]string{},
	}
}

func fingerprint(kind string, js []byte) uint64 {
	h := fnv.New64a()
	h.Write([]byte(kind))
	h.Write([]byte{0})
	h.Write(js)
	return h.Sum64()
}

func (e *Ev) record(kind string, js []byte, o *Obs) {
	e.mu.Lock()
	defer e.mu.Unlock()
	e.evaluations++
	for _, c := range o.classes {
		e.classes[c]++
	}
	for _, k := range o.excluded {
		e.excluded[k]++
	}
	if o.nontrivial {
		fp := fingerprint(kind, js)
		if _, ok := e.fps[fp]; !ok {
			if len(e.fps) < e.fpCap {
				e.fps[fp] = struct{}{}
			} else {
				e.fpOverflow++
			}
		}
	}
	// samples: first 3 per process, then a deterministic reservoir of 5
	if len(js) > 4000 && len(e.samplesFirst) >= 3 {
		js = nil // large cases: only among the first three samples (written out in full up to 20 kB)
	}
	if len(js) > 20000 {
		trunc, _ := json.Marshal(string(js[:2000]) + fmt.Sprintf("...(case of %d bytes, truncated)", len(js)))
		js = trunc
	}
	if js != nil {
		wrapped, _ := json.Marshal(map[string]any{"kind": kind, "case": json.RawMessage(js)})
		if len(e.samplesFirst) < 3 {
			e.samplesFirst = append(e.samplesFirst, wrapped)
		} else {
			e.resSeen++
			if len(e.samplesRes) < 5 {
				e.samplesRes = append(e.samplesRes, wrapped)
			} else {
				// deterministic pseudo-random replacement driven by the fingerprint
				fp := fingerprint("res", js) ^ e.resSeen*0x9E3779B97F4A7C15
				if j := fp % e.resSeen; j < 5 {
					e.samplesRes[j] = wrapped
				}
			}
		}
	}
}

// Bulk accounts for cases enumerated by plain loops (each distinct by construction).
func (e *Ev) Bulk(class string, evaluations, nontrivial int64) {
	e.mu.Lock()
	defer e.mu.Unlock()
	e.evaluations += evaluations
	e.bulkDistinct += nontrivial
	e.classes[class] += evaluations
}

// Sample adds an explicit sample (used by bulk enumerations).
func (e *Ev) Sample(kind string, v any) {
	js, _ := json.Marshal(v)
	wrapped, _ := json.Marshal(map[string]any{"kind": kind, "case": json.RawMessage(js)})
	e.mu.Lock()
	defer e.mu.Unlock()
	if len(e.samplesFirst) < 8 {
		e.samplesFirst = append(e.samplesFirst, wrapped)
	}
}

func (e *Ev) Exhaustive(space string, size int64) {
	e.mu.Lock()
	defer e.mu.Unlock()
	e.exhaustive = append(e.exhaustive, exhaustiveNote{space, size})
}

// Rule states how cases are generated and what makes one non-trivial.
func (e *Ev) Rule(rule string, assumptions ...string) {
	e.mu.Lock()
	defer e.mu.Unlock()
	e.rule = rule
	e.assumptions = assumptions
}

func (e *Ev) Note(format string, a ...any) {
	e.mu.Lock()
	defer e.mu.Unlock()
	e.notes = append(e.notes, fmt.Sprintf(format, a...))
}

func (e *Ev) HarnessError(format string, a ...any) {
	e.mu.Lock()
	defer e.mu.Unlock()
	msg := fmt.Sprintf(format, a...)
	e.harnessErrors = append(e.harnessErrors, msg)
	fmt.Printf("HARNESS-ERROR property=%s %s\n", e.prop, msg)
}

func (e *Ev) KnownStill(key, what string) {
	e.mu.Lock()
	defer e.mu.Unlock()
	e.knownStill[key] = what
}

func (e *Ev) classCount(c string) int64 {
	e.mu.Lock()
	defer e.mu.Unlock()
	return e.classes[c]
}

// requireClasses lists histogram classes the generators are built to reach; the
// driver turns a class that is empty after merging all shards into a harness error
// ("measure what the generator produces").
func (e *Ev) requireClasses(cs ...string) {
	e.mu.Lock()
	defer e.mu.Unlock()
	e.required = append(e.required, cs...)
}

// saveViolation writes the replay file and records the violation.
func (e *Ev) saveViolation(kind string, js []byte, msg string) {
	dir := filepath.Join(envStr("VERIF_REPLAY_ROOT", filepath.Join(verifRoot, "replays")), e.prop)
	os.MkdirAll(dir, 0o755)
	fp := fingerprint(kind, js)
	path := filepath.Join(dir, fmt.Sprintf("%s-%016x.json", kind, fp))
	doc, _ := json.MarshalIndent(map[string]any{
		"property": e.prop,
		"kind":     kind,
		"case":     json.RawMessage(js),
		"message":  msg,
	}, "", " ")
	os.WriteFile(path, doc, 0o644)
	e.mu.Lock()
	e.violations = append(e.violations, violation{kind, path, msg})
	e.mu.Unlock()
	fmt.Printf("FAILCASE property=%s kind=%s replay=%s\n  %s\n", e.prop, kind, path, firstLine(msg))
}

func firstLine(s string) string {
	if i := strings.IndexByte(s, '\n'); i >= 0 {
		s = s[:i]
	}
	if len(s) > 600 {
		s = s[:600] + "…"
	}
	return s
}

// flush writes the partial evidence file of this process.
func (e *Ev) flush() {
	if outDir == "" {
		return
	}
	e.mu.Lock()
	defer e.mu.Unlock()
	os.MkdirAll(outDir, 0o755)
	fpFile := filepath.Join(outDir, "fps.bin")
	buf := make([]byte, 0, 8*len(e.fps))
	keys := make([]uint64, 0, len(e.fps))
	for k := range e.fps {
		keys = append(keys, k)
	}
	sort.Slice(keys, func(i, j int) bool { return keys[i] < keys[j] })
	for _, k := range keys {
		buf = binary.LittleEndian.AppendUint64(buf, k)
	}
	os.WriteFile(fpFile, buf, 0o644)
	samples := append([]json.RawMessage{}, e.samplesFirst...)
	samples = append(samples, e.samplesRes...)
	doc := map[string]any{
		"property":       e.prop,
		"tier":           tier,
		"seed":           seedEnv,
		"shard":          shard,
		"nshards":        nShards,
		"evaluations":    e.evaluations,
		"bulk_distinct":  e.bulkDistinct,
		"fp_overflow":    e.fpOverflow,
		"classes":        e.classes,
		"samples":        samples,
		"exhaustive":     e.exhaustive,
		"violations":     e.violations,
		"harness_errors": e.harnessErrors,
		"excluded":       e.excluded,
		"known_still":    e.knownStill,
		"notes":          e.notes,
		"rule":           e.rule,
		"required":       e.required,
		"assumptions":    e.assumptions,
		"wall_s":         time.Since(e.start).Seconds(),
	}
	js, _ := json.MarshalIndent(doc, "", " ")
	os.WriteFile(filepath.Join(outDir, "partial.json"), js, 0o644)
}

// ---------------------------------------------------------------------------------
// kinds

type harnessBug struct{ msg string }

func (h harnessBug) Error() string { return h.msg }

// hbug makes an error that is reported as a harness error (exit 2), never as a
// violation.
func hbug(format string, a ...any) error { return harnessBug{fmt.Sprintf(format, a...)} }

type Kind[C any] struct {
	Prop string
	Name string
	Gen  func(t *rapid.T) C
	Eval func(c C, o *Obs) error
}

type replayFn func(raw []byte) error

var registry = map[string]replayFn{}

func register[C any](k *Kind[C]) *Kind[C] {
	registry[k.Prop+"/"+k.Name] = func(raw []byte) error {
		var c C
		if err := json.Unmarshal(raw, &c); err != nil {
			return hbug("cannot decode replay case: %v", err)
		}
		return safeEval(k.Eval, c, &Obs{})
	}
	return k
}

// safeEval runs eval and converts a panic into an error.  A panic whose stack does
// not pass through bchutil code is a harness bug, not a violation.
func safeEval[C any](eval func(C, *Obs) error, c C, o *Obs) (err error) {
	defer func() {
		if r := recover(); r != nil {
			st := string(debug.Stack())
			if strings.Contains(st, "github.com/gcash/bchutil") || strings.Contains(st, "/repo/") {
				err = fmt.Errorf("panic: %v\n%s", r, trimStack(st))
			} else {
				err = hbug("panic in harness: %v\n%s", r, trimStack(st))
			}
		}
	}()
	if err = eval(c, o); err == nil {
		err = netsIntact()
	}
	return err
}

func trimStack(st string) string {
	lines := strings.Split(st, "\n")
	if len(lines) > 40 {
		lines = lines[:40]
	}
	return strings.Join(lines, "\n")
}

func kindSeed(name string) uint64 {
	h := fnv.New64a()
	h.Write([]byte(name))
	s := uint64(seedEnv)*0x9E3779B97F4A7C15 + uint64(shard)*0xBF58476D1CE4E5B9 + h.Sum64()
	s &= (1 << 62) - 1
	if s == 0 {
		s = 1
	}
	return s
}

// One evaluates a single, deterministically chosen case (grids, regression cases,
// enumerations that want fingerprinting).  Returns false if it failed.
// trackCase saves the case about to be evaluated, so that the driver can attribute a
// process death the harness cannot recover from (the runtime's fatal "out of memory"
// when a parser allocates by a claimed count) to the input that caused it.
func trackCase(prop, kind string, js []byte) {
	if outDir == "" || (prop != "C08" && prop != "C19") {
		return
	}
	doc, _ := json.Marshal(map[string]any{"property": prop, "kind": kind, "case": json.RawMessage(js)})
	os.WriteFile(filepath.Join(outDir, "current-case.json"), doc, 0o644)
}

func (k *Kind[C]) One(ev *Ev, c C) bool {
	o := &Obs{}
	if k.Prop == "C08" || k.Prop == "C19" {
		pre, _ := json.Marshal(c)
		trackCase(k.Prop, k.Name, pre)
	}
	err := safeEval(k.Eval, c, o)
	js, _ := json.Marshal(c)
	ev.record(k.Name, js, o)
	if err == nil {
		return true
	}
	var hb harnessBug
	if errors.As(err, &hb) {
		ev.HarnessError("%s: %s", k.Name, hb.msg)
		return false
	}
	ev.saveViolation(k.Name, js, err.Error())
	return false
}

// Run drives the kind with rapid for `checks` generated cases (already per-shard).
func (k *Kind[C]) Run(t *testing.T, ev *Ev, checks int) {
	if checks < 1 {
		checks = 1
	}
	flag.Set("rapid.checks", strconv.Itoa(checks))
	flag.Set("rapid.seed", strconv.FormatUint(kindSeed(k.Name), 10))
	flag.Set("rapid.shrinktime", "10s")
	flag.Set("rapid.nofailfile", "true")
	var (
		bestJS  []byte
		bestMsg string
		runs    int
		hbErr   string
	)
	ok := t.Run(k.Name, func(st *testing.T) {
		rapid.Check(st, func(rt *rapid.T) {
			c := k.Gen(rt)
			o := &Obs{}
			if k.Prop == "C08" || k.Prop == "C19" {
				pre, _ := json.Marshal(c)
				trackCase(k.Prop, k.Name, pre)
				if runs%200 == 0 {
					ev.flush()
				}
			}
			err := safeEval(k.Eval, c, o)
			js, _ := json.Marshal(c)
			runs++
			if err == nil {
				ev.record(k.Name, js, o)
				return
			}
			var hb harnessBug
			if errors.As(err, &hb) {
				hbErr = hb.msg
				rt.Fatalf("harness bug: %s", hb.msg)
			}
			if bestJS == nil || len(js) <= len(bestJS) {
				bestJS, bestMsg = js, err.Error()
			}
			rt.Fatalf("%s", firstLine(err.Error()))
		})
	})
	switch {
	case hbErr != "":
		ev.HarnessError("%s: %s", k.Name, hbErr)
	case bestJS != nil:
		ev.saveViolation(k.Name, bestJS, bestMsg)
	case !ok:
		ev.HarnessError("%s: rapid failed without a recorded case (generator problem?)", k.Name)
	case runs < checks:
		ev.HarnessError("%s: only %d of %d cases ran (deadline?) - inconclusive", k.Name, runs, checks)
	}
}

// RunConcurrent evaluates batches of generated cases on several goroutines at once.  The
// functions under test in these kinds are pure; a case that passes alone but fails while other
// cases are being evaluated exposes state shared between calls (caches, pooled buffers).  A
// failing batch is re-evaluated sequentially first: if it fails there too it is an ordinary
// violation of that case; otherwise the whole batch is the replay unit (kind "<name>-concurrent",
// re-executed 300 times by --replay).
func runConcurrent[C any](k *Kind[C], t *testing.T, ev *Ev, batches, size int) {
	bk := concurrentKind(k)
	flag.Set("rapid.checks", strconv.Itoa(batches))
	flag.Set("rapid.seed", strconv.FormatUint(kindSeed(bk.Name), 10))
	flag.Set("rapid.shrinktime", "5s")
	flag.Set("rapid.nofailfile", "true")
	var bestJS []byte
	var bestMsg string
	t.Run(bk.Name, func(st *testing.T) {
		rapid.Check(st, func(rt *rapid.T) {
			batch := make([]C, size)
			for i := range batch {
				batch[i] = k.Gen(rt)
			}
			o := &Obs{}
			err := safeEval(bk.Eval, batch, o)
			js, _ := json.Marshal(batch)
			if err == nil {
				o.NT()
				o.Class(k.Prop + ":concurrent-batches")
				ev.record(bk.Name, js, o)
				return
			}
			var hb harnessBug
			if errors.As(err, &hb) {
				rt.Skip()
			}
			if bestJS == nil || len(js) <= len(bestJS) {
				bestJS, bestMsg = js, err.Error()
			}
			rt.Fatalf("%s", firstLine(err.Error()))
		})
	})
	if bestJS != nil {
		ev.saveViolation(bk.Name, bestJS, bestMsg)
	}
}

var concurrentKinds = map[string]any{}

func concurrentKind[C any](k *Kind[C]) *Kind[[]C] {
	name := k.Name + "-concurrent"
	if v, ok := concurrentKinds[k.Prop+"/"+name]; ok {
		return v.(*Kind[[]C])
	}
	bk := register(&Kind[[]C]{Prop: k.Prop, Name: name, Eval: func(batch []C, o *Obs) error {
		reps := 3
		if os.Getenv("VERIF_REPLAY") != "" {
			reps = 300
		}
		for rep := 0; rep < reps; rep++ {
			errs := make([]error, len(batch))
			var wg sync.WaitGroup
			start := make(chan struct{})
			for i := range batch {
				i := i
				wg.Add(1)
				go func() {
					defer wg.Done()
					<-start
					errs[i] = safeEval(k.Eval, batch[i], &Obs{})
				}()
			}
			close(start)
			wg.Wait()
			for i, e := range errs {
				if e == nil {
					continue
				}
				var hb harnessBug
				if errors.As(e, &hb) {
					return e
				}
				if seq := safeEval(k.Eval, batch[i], &Obs{}); seq != nil {
					return fmt.Errorf("case %d of the batch fails on its own: %v", i, seq)
				}
				return fmt.Errorf("case %d of a batch of %d passes on its own but fails while the other cases are evaluated concurrently (state shared between calls): %v",
					i, len(batch), e)
			}
		}
		return nil
	}})
	concurrentKinds[k.Prop+"/"+name] = bk
	return bk
}

// ---------------------------------------------------------------------------------
// test scaffolding

// currentEv is the collector of the running check (used by C20 to flush partial
// evidence before the race detector may halt the process).
var currentEv *Ev

// propTest is the common prologue/epilogue of every TestCNN.
func propTest(t *testing.T, prop string, body func(ev *Ev)) {
	if want := os.Getenv("VERIF_PROP"); want != prop {
		t.Skip("VERIF_PROP not set to " + prop)
	}
	ev := newEv(prop)
	currentEv = ev
	defer ev.flush()
	defer func() {
		if r := recover(); r != nil {
			ev.HarnessError("panic outside a case: %v\n%s", r, trimStack(string(debug.Stack())))
			t.Fail()
		}
	}()
	if err := setupProp(prop); err != nil {
		ev.HarnessError("%v", err)
		t.Fail()
		return
	}
	body(ev)
	if len(ev.violations) > 0 || len(ev.harnessErrors) > 0 {
		t.Fail()
	}
}

// TestReplay re-evaluates one saved case, bypassing rapid.
func TestReplay(t *testing.T) {
	path := os.Getenv("VERIF_REPLAY")
	if path == "" {
		t.Skip("no VERIF_REPLAY")
	}
	raw, err := os.ReadFile(path)
	if err != nil {
		fmt.Printf("HARNESS-ERROR cannot read %s: %v\n", path, err)
		t.FailNow()
	}
	var doc struct {
		Property string          `json:"property"`
		Kind     string          `json:"kind"`
		Case     json.RawMessage `json:"case"`
	}
	if err := json.Unmarshal(raw, &doc); err != nil {
		fmt.Printf("HARNESS-ERROR cannot parse %s: %v\n", path, err)
		t.FailNow()
	}
	fn, ok := registry[doc.Property+"/"+doc.Kind]
	if !ok {
		fmt.Printf("HARNESS-ERROR unknown kind %s/%s\n", doc.Property, doc.Kind)
		t.FailNow()
	}
	if err := setupProp(doc.Property); err != nil {
		fmt.Printf("HARNESS-ERROR %v\n", err)
		t.FailNow()
	}
	err = fn(doc.Case)
	var hb harnessBug
	switch {
	case err == nil:
		fmt.Printf("REPLAY-PASS property=%s kind=%s\n", doc.Property, doc.Kind)
	case errors.As(err, &hb):
		fmt.Printf("HARNESS-ERROR %s\n", hb.msg)
		t.FailNow()
	default:
		fmt.Printf("REPLAY-FAIL property=%s kind=%s\n%s\n", doc.Property, doc.Kind, err.Error())
		fmt.Printf("VIOLATION property=%s replay=%s\n", doc.Property, path)
		t.Fail()
	}
}

// parallelFor runs f(i) for i in [0,n) on `workers` goroutines.
func parallelFor(n, workers int, f func(i int)) {
	if workers < 1 {
		workers = 1
	}
	var wg sync.WaitGroup
	ch := make(chan int, workers*2)
	for w := 0; w < workers; w++ {
		wg.Add(1)
		go func() {
			defer wg.Done()
			for i := range ch {
				f(i)
			}
		}()
	}
	for i := 0; i < n; i++ {
		ch <- i
	}
	close(ch)
	wg.Wait()
}
