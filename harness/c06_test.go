package harness

// C06 WIF private-key strings round-trip, are canonical and checksum-guarded.

import (
	"bytes"
	"fmt"
	"math/big"
	"runtime"
	"testing"
	"time"

	"github.com/gcash/bchd/bchec"
	"github.com/gcash/bchutil"
	"pgregory.net/rapid"
)

func refWIFEncode(netID byte, key []byte, compress bool) string {
	b := append([]byte{netID}, key...)
	if compress {
		b = append(b, 1)
	}
	return refB58Encode(append(b, dsha256(b)[:4]...))
}

// refWIFShape: (netID, key, compressed, ok) for strings of the shape the statement
// prescribes.
func refWIFShape(s string) (byte, []byte, bool, bool) {
	raw, ok := refB58Decode(s)
	if !ok {
		return 0, nil, false, false
	}
	var body []byte
	var compress bool
	switch len(raw) {
	case 37:
		body = raw[:33]
	case 38:
		if raw[33] != 1 {
			return 0, nil, false, false
		}
		body, compress = raw[:34], true
	default:
		return 0, nil, false, false
	}
	if !bytes.Equal(dsha256(body)[:4], raw[len(raw)-4:]) {
		return 0, nil, false, false
	}
	return raw[0], raw[1:33], compress, true
}

// ---- kind: roundtrip ----------------------------------------------------------------

type c06RT struct {
	Scalar   HexBytes `json:"scalar"`
	Compress bool     `json:"compress"`
	Net      int      `json:"net"`
}

func evalC06RT(c c06RT, o *Obs) error {
	p := nets[c.Net].Params
	priv, _ := bchec.PrivKeyFromBytes(bchec.S256(), c.Scalar)
	// the caller's Params value is its own: what it does with it after NewWIF is not the key's business
	own := *p
	w, err := bchutil.NewWIF(priv, &own, c.Compress)
	if err != nil {
		return fmt.Errorf("NewWIF failed: %v", err)
	}
	if c.Scalar[31]%2 == 1 {
		_ = w.String()
	}
	own.PrivateKeyID ^= 0x5a
	own.Name = "edited"
	o.NT()
	lz := 0
	for lz < 32 && c.Scalar[lz] == 0 {
		lz++
	}
	if lz > 0 {
		o.Class("C06:rt-leading-zero-bytes")
	} else {
		o.Class("C06:rt-no-leading-zero")
	}
	o.Class("C06:rt-net=%s", nets[c.Net].Name)
	s := w.String()
	if want := refWIFEncode(p.PrivateKeyID, c.Scalar, c.Compress); s != want {
		return fmt.Errorf("WIF of scalar %x (compress=%v, %s) = %q, specification gives %q", []byte(c.Scalar), c.Compress, nets[c.Net].Name, s, want)
	}
	d, err := bchutil.DecodeWIF(s)
	if err != nil {
		return fmt.Errorf("DecodeWIF(%q) failed: %v", s, err)
	}
	if !bytes.Equal(pad32(d.PrivKey.D), c.Scalar) || d.CompressPubKey != c.Compress {
		return fmt.Errorf("DecodeWIF(%q) = key %x compress %v, want %x %v", s, pad32(d.PrivKey.D), d.CompressPubKey, []byte(c.Scalar), c.Compress)
	}
	{
		// the key inside is a complete key from the start (its public point is there before anybody asks the wrapper for it)
		px, py := pubPoint(c.Scalar)
		if pk := d.PrivKey.PubKey(); pk == nil || pk.X == nil || pk.Y == nil || pk.X.Cmp(px) != 0 || pk.Y.Cmp(py) != 0 {
			return fmt.Errorf("DecodeWIF(%q): the decoded private key's public point is not that of the scalar (before SerializePubKey was ever called)", s)
		}
		if c.Scalar[30]%16 == 3 {
			// ... and it outlives the wrapper: a caller that keeps only the key still has it after a collection
			keyOnly := func() *bchec.PrivateKey {
				w2, err := bchutil.DecodeWIF(s)
				if err != nil {
					return nil
				}
				return w2.PrivKey
			}()
			for i := 0; i < 2; i++ {
				runtime.GC()
				time.Sleep(time.Millisecond)
			}
			if keyOnly == nil || !bytes.Equal(pad32(keyOnly.D), c.Scalar) {
				return fmt.Errorf("DecodeWIF(%q): the private key kept by the caller changed after the WIF wrapper was collected", s)
			}
			o.Class("C06:rt-key-outlives-wrapper")
		}
	}
	for _, n2 := range nets {
		if w.IsForNet(n2.Params) != d.IsForNet(n2.Params) {
			return fmt.Errorf("NewWIF(%s).IsForNet(%s) = %v but the key decoded from its string says %v: the network identity does not survive the round trip",
				nets[c.Net].Name, n2.Name, w.IsForNet(n2.Params), d.IsForNet(n2.Params))
		}
		if got, want := d.IsForNet(n2.Params), n2.Params.PrivateKeyID == p.PrivateKeyID; got != want {
			return fmt.Errorf("DecodeWIF(%q).IsForNet(%s) = %v, want %v", s, n2.Name, got, want)
		}
	}
	x, y := pubPoint(c.Scalar)
	wantPub := serPub(x, y, 1)
	if c.Compress {
		wantPub = serPub(x, y, 0)
	}
	// a decoded key belongs to the caller: wiping it must not show in a later decode of the same string
	if d0, err := bchutil.DecodeWIF(s); err == nil {
		d0.PrivKey.D.SetInt64(0)
		d0.CompressPubKey = !d0.CompressPubKey
		if d1, err := bchutil.DecodeWIF(s); err != nil || !bytes.Equal(pad32(d1.PrivKey.D), c.Scalar) || d1.CompressPubKey != c.Compress {
			return fmt.Errorf("DecodeWIF(%q) returns key %x compress %v after the caller wiped the key returned by an earlier call", s, pad32(d1.PrivKey.D), d1.CompressPubKey)
		}
	}
	for _, ww := range []*bchutil.WIF{w, d} {
		if got := ww.SerializePubKey(); !bytes.Equal(got, wantPub) {
			return fmt.Errorf("SerializePubKey (compress=%v) of scalar %x = %x, want %x", c.Compress, []byte(c.Scalar), got, wantPub)
		}
	}
	if d.String() != s {
		return fmt.Errorf("DecodeWIF(%q).String() = %q", s, d.String())
	}
	// the result of SerializePubKey belongs to the caller: scribbling over it must not change later results,
	// and the (exported) compression flag is honoured on every call
	first := w.SerializePubKey()
	for i := range first {
		first[i] ^= 0xff
	}
	if got := w.SerializePubKey(); !bytes.Equal(got, wantPub) {
		return fmt.Errorf("SerializePubKey returns %x after the caller modified the slice returned by an earlier call, want %x", got, wantPub)
	}
	w.CompressPubKey = !c.Compress
	otherPub := serPub(x, y, 0)
	if c.Compress {
		otherPub = serPub(x, y, 1)
	}
	if got := w.SerializePubKey(); !bytes.Equal(got, otherPub) {
		return fmt.Errorf("after flipping CompressPubKey to %v SerializePubKey returns %d bytes %x, want %x", !c.Compress, len(got), got, otherPub)
	}
	if got, want := w.String(), refWIFEncode(p.PrivateKeyID, c.Scalar, !c.Compress); got != want {
		return fmt.Errorf("after flipping CompressPubKey to %v String() = %q, want %q", !c.Compress, got, want)
	}
	return nil
}

var kC06RT = register(&Kind[c06RT]{
	Prop: "C06", Name: "roundtrip",
	Gen: func(t *rapid.T) c06RT {
		return c06RT{Scalar: genScalar(t, "k"), Compress: rapid.Bool().Draw(t, "compress"), Net: genNet(t)}
	},
	Eval: evalC06RT,
})

// ---- kind: hostile ------------------------------------------------------------------

type c06Hostile struct {
	Body      HexBytes `json:"body"` // what is hashed
	Recompute bool     `json:"recompute"`
	Cksum     HexBytes `json:"cksum"`
	FlipBit   int      `json:"flip_bit"`
	AllFlips  bool     `json:"all_flips"`
	LeadOnes  int      `json:"lead_ones"`
	Wrap      string   `json:"wrap"` // characters put before ("<x") or after (">x") the string
	AliasPos  int      `json:"alias_pos"`
	AliasKind int      `json:"alias_kind"`
}

func c06Judge(s string, o *Obs) error {
	w, err := bchutil.DecodeWIF(s)
	netID, key, compress, shape := refWIFShape(s)
	if err == nil {
		o.Class("C06:accepted")
		if !shape {
			raw, _ := refB58Decode(s)
			return fmt.Errorf("DecodeWIF(%q) accepted, but it decodes to %d bytes %x: not 37 bytes / 38 bytes with marker 0x01 and a matching checksum", s, len(raw), raw)
		}
		if re := w.String(); re != s {
			return fmt.Errorf("DecodeWIF(%q) accepted but re-encodes to %q", s, re)
		}
		if w.CompressPubKey != compress || !bytes.Equal(pad32(w.PrivKey.D), key) {
			return fmt.Errorf("DecodeWIF(%q) = key %x compress %v, payload says %x %v", s, pad32(w.PrivKey.D), w.CompressPubKey, key, compress)
		}
		for _, n2 := range nets {
			if w.IsForNet(n2.Params) != (n2.Params.PrivateKeyID == netID) {
				return fmt.Errorf("DecodeWIF(%q).IsForNet(%s) wrong for net byte %#x", s, n2.Name, netID)
			}
		}
		return nil
	}
	o.Class("C06:rejected")
	if shape {
		k := new(big.Int).SetBytes(key)
		if k.Sign() > 0 && k.Cmp(curveN) < 0 {
			return fmt.Errorf("DecodeWIF(%q) rejected (%v) a well-formed string with scalar %x in [1,n-1]", s, err, key)
		}
	}
	return nil
}

func evalC06Hostile(c c06Hostile, o *Obs) error {
	raw := append([]byte{}, c.Body...)
	if c.Recompute {
		raw = append(raw, dsha256(c.Body)[:4]...)
		o.NT()
		o.Class("C06:checksum-recomputed/decoded-len=%d", len(raw))
	} else {
		raw = append(raw, c.Cksum...)
	}
	if c.FlipBit >= 0 && len(raw) > 0 {
		b := c.FlipBit % (len(raw) * 8)
		raw[b/8] ^= 1 << uint(b%8)
		o.NT()
		o.Class("C06:single-bit-flip")
	}
	s := refB58Encode(raw)
	for i := 0; i < c.LeadOnes; i++ {
		s = "1" + s
	}
	if c.AliasPos >= 0 {
		s = applyAlias(s, c.AliasPos, c.AliasKind)
		o.Class("C06:character-alias")
	}
	if len(c.Wrap) > 1 {
		if c.Wrap[0] == '<' {
			s = c.Wrap[1:] + s
		} else {
			s = s + c.Wrap[1:]
		}
		o.Class("C06:junk-around-the-string")
	}
	if err := c06Judge(s, o); err != nil {
		return err
	}
	if c.AllFlips {
		o.Class("C06:all-single-bit-flips")
		for b := 0; b < len(raw)*8; b++ {
			f := append([]byte{}, raw...)
			f[b/8] ^= 1 << uint(b%8)
			if err := c06Judge(refB58Encode(f), &Obs{}); err != nil {
				return err
			}
		}
		if len(raw) >= 4 {
			for pos := len(raw) - 4; pos < len(raw); pos++ {
				for v := 0; v < 256; v++ {
					f := append([]byte{}, raw...)
					f[pos] = byte(v)
					if err := c06Judge(refB58Encode(f), &Obs{}); err != nil {
						return err
					}
				}
			}
		}
	}
	return nil
}

func genC06Hostile(t *rapid.T) c06Hostile {
	c := c06Hostile{FlipBit: -1, Recompute: true, AliasPos: -1}
	netID := rapid.SampledFrom([]byte{0x80, 0xef, 0x64, 0x00, 0xff}).Draw(t, "netid")
	var key []byte
	switch rapid.IntRange(0, 5).Draw(t, "key_cls") {
	case 0:
		key = make([]byte, 32) // zero
	case 1:
		key = pad32(curveN)
	case 2:
		key = bytes.Repeat([]byte{0xff}, 32)
	default:
		key = genScalar(t, "k")
	}
	body := append([]byte{netID}, key...)
	switch rapid.IntRange(0, 9).Draw(t, "shape") {
	case 0, 1: // compressed with marker 0..255
		body = append(body, rapid.SampledFrom([]byte{1, 1, 0, 2, 0x81, 0xff}).Draw(t, "marker"))
	case 2: // arbitrary marker
		body = append(body, rapid.Byte().Draw(t, "marker"))
	case 3: // other lengths 0..41 (decoded 4..45), checksum recomputed
		n := rapid.IntRange(0, 41).Draw(t, "len")
		for len(body) < n {
			body = append(body, rapid.Byte().Draw(t, "extra"))
		}
		body = body[:n]
		if n > 34 && rapid.Bool().Draw(t, "marker_in_long") { // over-long payload that still carries the compression marker
			body[33] = 1
		}
	case 4:
		c.FlipBit = rapid.IntRange(0, 38*8-1).Draw(t, "flip")
		if rapid.Bool().Draw(t, "cmp") {
			body = append(body, 1)
		}
	case 5:
		c.Recompute = false
		c.Cksum = genBytesN(t, "ck", rapid.IntRange(0, 4).Draw(t, "cklen"))
	case 6:
		c.LeadOnes = rapid.IntRange(1, 3).Draw(t, "ones")
	case 7:
		c.AllFlips = rapid.IntRange(0, 3).Draw(t, "allflips") == 0
		if rapid.Bool().Draw(t, "cmp") {
			body = append(body, 1)
		}
	case 9:
		c.Wrap = rapid.SampledFrom([]string{"< ", "> ", ">\n", "<\n", ">\t", ">\r\n", "<\u00a0", ">\x00", ">0", ">l", "<O"}).Draw(t, "wrap")
		if rapid.Bool().Draw(t, "cmp") {
			body = append(body, 1)
		}
	case 8:
		c.AliasPos = rapid.IntRange(0, 60).Draw(t, "alias_pos")
		c.AliasKind = rapid.IntRange(0, 5).Draw(t, "alias_kind")
		if rapid.Bool().Draw(t, "cmp") {
			body = append(body, 1)
		}
	}
	c.Body = body
	return c
}

var kC06Hostile = register(&Kind[c06Hostile]{Prop: "C06", Name: "hostile", Gen: genC06Hostile, Eval: evalC06Hostile})

type c06Str struct {
	S string `json:"s"`
}

var kC06Str = register(&Kind[c06Str]{
	Prop: "C06", Name: "string",
	Gen: func(t *rapid.T) c06Str {
		if rapid.Bool().Draw(t, "b58") {
			return c06Str{S: genB58String(t, "s", 60)}
		}
		return c06Str{S: rapid.StringMatching(`[ -~]{0,60}`).Draw(t, "s")}
	},
	Eval: func(c c06Str, o *Obs) error { return c06Judge(c.S, o) },
})

func TestC06(t *testing.T) {
	propTest(t, "C06", func(ev *Ev) {
		ev.Rule("(a) scalars in [1,n-1] (incl. 1, n-1, forced 1..31 leading zero bytes) x compress x 6 nets: string == reference "+
			"WIF encoder, decode gives same key bytes / flag / network identity, SerializePubKey == locally serialised k*G (33 or "+
			"65 bytes); (b) constructed payloads: net byte x key (0, n, 2^256-1, valid) x marker byte 0..255 x decoded lengths "+
			"4..45 with recomputed checksum, single-bit flips (all flips + every checksum byte value for a subset), explicit wrong "+
			"or short checksums, leading '1's; (c) random strings. Oracle: accept => 37/38-byte shape with marker 0x01 and matching "+
			"checksum, and identical re-encoding; well-formed with scalar in [1,n-1] => accepted. Non-trivial = round-trip cases, "+
			"recomputed-checksum cases and single-bit corruptions.",
			"reference Base58 pinned to published vectors", "bchec scalar multiplication to derive the expected public point",
			"acceptance of well-formed strings with scalar 0 or >= n is not asserted either way")
		refSelfCodecs(ev)
		if len(ev.harnessErrors) > 0 {
			return
		}
		kC06RT.Run(t, ev, perShard(pick(2500, 1200000)))
		kC06Hostile.Run(t, ev, perShard(pick(4000, 2000000)))
		kC06Str.Run(t, ev, perShard(pick(1000, 500000)))
		kC06Alias.Run(t, ev, perShard(pick(150, 10000)))
		runConcurrent(kC06RT, t, ev, perShard(pick(100, 10000)), 8)
		ev.requireClasses("C06:accepted", "C06:rejected", "C06:rt-leading-zero-bytes", "C06:all-single-bit-flips",
			"C06:checksum-recomputed/decoded-len=37", "C06:checksum-recomputed/decoded-len=38", "C06:checksum-recomputed/decoded-len=36",
			"C06:rt-net=simnet", "C06:rt-net=mainnet", "C06:character-alias", "C06:checksum-recomputed/decoded-len=40")
	})
}
