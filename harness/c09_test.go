package harness

// C09 Bloom filters have no false negatives and are bit-exact BIP37.

import (
	"bytes"
	"encoding/binary"
	"fmt"
	"math"
	"sync"
	"testing"

	"github.com/gcash/bchd/chaincfg/chainhash"
	"github.com/gcash/bchd/wire"
	"github.com/gcash/bchutil/bloom"
	"pgregory.net/rapid"
)

// ---- reference MurmurHash3_x86_32 and BIP37 filter -----------------------------------

func rotl32(x uint32, r uint) uint32 { return x<<r | x>>(32-r) }

// refMurmur3 follows the published MurmurHash3_x86_32 description.
func refMurmur3(seed uint32, data []byte) uint32 {
	const c1, c2 = 0xcc9e2d51, 0x1b873593
	h := seed
	n := len(data) / 4
	for i := 0; i < n; i++ {
		k := uint32(data[4*i]) | uint32(data[4*i+1])<<8 | uint32(data[4*i+2])<<16 | uint32(data[4*i+3])<<24
		k *= c1
		k = rotl32(k, 15)
		k *= c2
		h ^= k
		h = rotl32(h, 13)
		h = h*5 + 0xe6546b64
	}
	tail := data[4*n:]
	var k uint32
	if len(tail) >= 3 {
		k ^= uint32(tail[2]) << 16
	}
	if len(tail) >= 2 {
		k ^= uint32(tail[1]) << 8
	}
	if len(tail) >= 1 {
		k ^= uint32(tail[0])
		k *= c1
		k = rotl32(k, 15)
		k *= c2
		h ^= k
	}
	h ^= uint32(len(data))
	h ^= h >> 16
	h *= 0x85ebca6b
	h ^= h >> 13
	h *= 0xc2b2ae35
	h ^= h >> 16
	return h
}

type refBloom struct {
	loaded bool
	bits   []byte
	k      uint32
	tweak  uint32
	flags  byte
}

func newRefBloom(n int, k, tweak uint32, flags byte) *refBloom {
	return &refBloom{loaded: true, bits: make([]byte, n), k: k, tweak: tweak, flags: flags}
}

func (b *refBloom) clone() *refBloom {
	c := *b
	c.bits = append([]byte{}, b.bits...)
	return &c
}

func (b *refBloom) bit(i uint32, data []byte) uint32 {
	return refMurmur3(i*0xFBA4C795+b.tweak, data) % uint32(len(b.bits)*8)
}

func (b *refBloom) add(data []byte) {
	if !b.loaded {
		return
	}
	for i := uint32(0); i < b.k; i++ {
		x := b.bit(i, data)
		b.bits[x/8] |= 1 << (x % 8)
	}
}

func (b *refBloom) has(data []byte) bool {
	if !b.loaded {
		return false
	}
	for i := uint32(0); i < b.k; i++ {
		x := b.bit(i, data)
		if b.bits[x/8]&(1<<(x%8)) == 0 {
			return false
		}
	}
	return true
}

func outpointBytes(hash []byte, index uint32) []byte {
	out := make([]byte, 36)
	copy(out, hash)
	binary.LittleEndian.PutUint32(out[32:], index)
	return out
}

func refSelfBloom(ev *Ev) {
	vec := []struct {
		want, seed uint32
		data       string
	}{
		{0x00000000, 0x00000000, ""}, {0x6a396f08, 0xFBA4C795, ""}, {0x81f16f39, 0xffffffff, ""},
		{0x514e28b7, 0x00000000, "00"}, {0xea3f0b17, 0xFBA4C795, "00"}, {0xfd6cf10d, 0x00000000, "ff"},
		{0x16c6b7ab, 0x00000000, "0011"}, {0x8eb51c3d, 0x00000000, "001122"}, {0xb4471bf8, 0x00000000, "00112233"},
		{0xe2301fa8, 0x00000000, "0011223344"}, {0xfc2e4a15, 0x00000000, "001122334455"},
		{0xb074502c, 0x00000000, "00112233445566"}, {0x8034d2a0, 0x00000000, "0011223344556677"},
		{0xb4698def, 0x00000000, "001122334455667788"},
	}
	for _, v := range vec {
		if got := refMurmur3(v.seed, mustHex(v.data)); got != v.want {
			ev.HarnessError("refMurmur3(%#x,%s) = %#x want %#x", v.seed, v.data, got, v.want)
		}
	}
	// Bitcoin Core bloom_create_insert_serialize / _with_tweaks
	for _, tc := range []struct {
		tweak uint32
		want  string
	}{{0, "614e9b"}, {2147483649, "ce4299"}} {
		f := newRefBloom(3, 5, tc.tweak, 1)
		f.add(mustHex("99108ad8ed9bb6274d3980bab5a85c048f0950c8"))
		f.add(mustHex("b5a2c786d9ef4658287ced5914b37a1b4aa32eee"))
		f.add(mustHex("b9300670b4c5366e95b2699e8b18bc75e5f729c5"))
		if !bytes.Equal(f.bits, mustHex(tc.want)) {
			ev.HarnessError("refBloom BIP37 vector (tweak %d) = %x want %s", tc.tweak, f.bits, tc.want)
		}
	}
}

// ---- kind: ops ----------------------------------------------------------------------

type bloomOp struct {
	Op    string   `json:"op"`
	Data  HexBytes `json:"data,omitempty"`
	Index uint32   `json:"index,omitempty"`
	Len   int      `json:"len,omitempty"` // reload
	K     uint32   `json:"k,omitempty"`
	Tweak uint32   `json:"tweak,omitempty"`
	Flags byte     `json:"flags,omitempty"`
}

type c09Case struct {
	Len   int       `json:"len"`
	K     uint32    `json:"k"`
	Tweak uint32    `json:"tweak"`
	Flags byte      `json:"flags"`
	Ops   []bloomOp `json:"ops"`
	// Ctor: how the filter object comes to hold its first message. 0 LoadFilter(msg); 1 a zero-value Filter, then
	// Reload(msg); 2 LoadFilter(nil), then Reload(msg) (what a peer does); 3 NewFilter (size and hash count are then
	// the library's choice and are read back from the message)
	Ctor int `json:"ctor,omitempty"`
}

func toHash(b []byte) *chainhash.Hash {
	var h chainhash.Hash
	copy(h[:], b)
	return &h
}

func evalC09(c c09Case, o *Obs) error {
	if c.Len < 1 || c.Len > 36000 || c.K > 50 {
		return hbug("filter parameters outside the wire limits")
	}
	var f *bloom.Filter
	first := wire.NewMsgFilterLoad(make([]byte, c.Len), c.K, c.Tweak, wire.BloomUpdateType(c.Flags))
	switch c.Ctor {
	case 1:
		f = new(bloom.Filter)
		f.Reload(first)
	case 2:
		f = bloom.LoadFilter(nil)
		f.Reload(first)
	case 3:
		f = bloom.NewFilter(uint32(c.Len%200+1), c.Tweak, 0.01, wire.BloomUpdateType(c.Flags))
		if msg := f.MsgFilterLoad(); msg == nil || len(msg.Filter) < 1 || len(msg.Filter) > 36000 || msg.HashFuncs > 50 {
			return fmt.Errorf("bloom.NewFilter(%d, %d, 0.01) holds a message outside the wire limits", c.Len%200+1, c.Tweak)
		} else {
			c.Len, c.K = len(msg.Filter), msg.HashFuncs
		}
	default:
		f = bloom.LoadFilter(first)
	}
	o.Class("C09:ctor=%d", c.Ctor)
	m := newRefBloom(c.Len, c.K, c.Tweak, c.Flags)
	var inserted [][]byte
	sawInsert, sawQueryAfter := false, false
	// a sibling filter with other parameters is used in between: filters must not share state
	gLen, gK, gTweak := c.Len%61+1, (c.K+7)%51, c.Tweak^0x5a5a5a5a
	g := bloom.LoadFilter(wire.NewMsgFilterLoad(make([]byte, gLen), gK, gTweak, wire.BloomUpdateAll))
	mg := newRefBloom(gLen, gK, gTweak, 1)
	o.Class("C09:len-class=%s", lenClass(c.Len))
	if c.K == 0 {
		o.Class("C09:k=0")
	}
	if c.K == 50 {
		o.Class("C09:k=50")
	}
	shared := bytes.Repeat([]byte{0xff}, 2048) // one buffer carries every item handed to the filter
	type loadedMsg struct {
		msg  *wire.MsgFilterLoad
		bits []byte // what its bit array held when the filter let go of it
	}
	var dropped []loadedMsg // messages handed to the filter earlier: they are the caller's again
	cur := f.MsgFilterLoad()
	for step, op := range c.Ops {
		where := fmt.Sprintf("filter(len=%d,k=%d,tweak=%d) step %d %s(%x,%d)", c.Len, c.K, c.Tweak, step, op.Op, []byte(op.Data), op.Index)
		if (op.Op == "add" || op.Op == "matches") && len(op.Data) <= len(shared) {
			n := copy(shared, op.Data)
			op.Data = shared[:n:n]
			if step%2 == 0 { // spare capacity, and whatever the previous item left behind it (or 0xff)
				op.Data = shared[:n]
			}
		}
		switch op.Op {
		case "add":
			f.Add(op.Data)
			op.Data = append(HexBytes{}, op.Data...) // the model and the bookkeeping keep their own copy
			m.add(op.Data)
			if m.loaded {
				inserted = append(inserted, op.Data)
				sawInsert = true
			}
			o.Class("C09:add-len%%4=%d", len(op.Data)%4)
			if len(op.Data) > 520 {
				o.Class("C09:add-item>520-bytes")
			}
		case "addhash":
			f.AddHash(toHash(op.Data))
			m.add(toHash(op.Data)[:])
			if m.loaded {
				inserted = append(inserted, toHash(op.Data)[:])
				sawInsert = true
			}
		case "addoutpoint":
			f.AddOutPoint(wire.NewOutPoint(toHash(op.Data), op.Index))
			d := outpointBytes(toHash(op.Data)[:], op.Index)
			m.add(d)
			if m.loaded {
				inserted = append(inserted, d)
				sawInsert = true
			}
		case "matches":
			got, want := f.Matches(op.Data), m.has(op.Data)
			if got != want {
				return fmt.Errorf("%s = %v, BIP37 model says %v", where, got, want)
			}
			if sawInsert && m.loaded && c.K >= 1 {
				sawQueryAfter = true
			}
		case "matchesoutpoint":
			got := f.MatchesOutPoint(wire.NewOutPoint(toHash(op.Data), op.Index))
			want := m.has(outpointBytes(toHash(op.Data)[:], op.Index))
			if got != want {
				return fmt.Errorf("%s = %v, BIP37 model says %v", where, got, want)
			}
			if sawInsert && m.loaded && c.K >= 1 {
				sawQueryAfter = true
			}
		case "unload":
			if cur != nil {
				dropped = append(dropped, loadedMsg{cur, append([]byte{}, cur.Filter...)})
				cur = nil
			}
			if op.Index%2 == 1 {
				f.Reload(nil) // the other way of unloading, the one the repository's own tests use
				o.Class("C09:unload-by-reload-nil")
			} else {
				f.Unload()
			}
			m.loaded = false
			inserted = nil
			o.Class("C09:unload")
		case "reload":
			if op.Len < 1 || op.Len > 36000 || op.K > 50 {
				return hbug("reload parameters outside the wire limits")
			}
			if cur != nil {
				dropped = append(dropped, loadedMsg{cur, append([]byte{}, cur.Filter...)})
			}
			if len(dropped) > 0 && op.Len%3 == 0 {
				// the caller loads a message again that the filter held before: it carries what was inserted then
				oi := int(op.Tweak) % len(dropped)
				old := dropped[oi]
				dropped = append(dropped[:oi:oi], dropped[oi+1:]...)
				cur = old.msg
				f.Reload(cur)
				m = &refBloom{loaded: true, bits: append([]byte{}, old.bits...), k: cur.HashFuncs, tweak: cur.Tweak, flags: byte(cur.Flags)}
				o.Class("C09:reload-of-an-earlier-message")
			} else {
				cur = wire.NewMsgFilterLoad(make([]byte, op.Len), op.K, op.Tweak, wire.BloomUpdateType(op.Flags))
				f.Reload(cur)
				m = newRefBloom(op.Len, op.K, op.Tweak, op.Flags)
			}
			inserted = nil
			o.Class("C09:reload")
		default:
			return hbug("unknown op %q", op.Op)
		}
		// the sibling gets a related operation
		if len(op.Data) > 0 || op.Op == "add" {
			sd := append([]byte{byte(step)}, op.Data...)
			if step%3 == 0 {
				g.Add(sd)
				mg.add(sd)
			} else if g.Matches(sd) != mg.has(sd) {
				return fmt.Errorf("%s: sibling filter(len=%d,k=%d) answers Matches(%x) differently from its model", where, gLen, gK, sd)
			}
			if !bytes.Equal(g.MsgFilterLoad().Filter, mg.bits) {
				return fmt.Errorf("%s: sibling filter(len=%d,k=%d) bit array %x differs from its model %x (state shared between filters?)",
					where, gLen, gK, clip(g.MsgFilterLoad().Filter), clip(mg.bits))
			}
		}
		// invariants after every step
		for _, d := range dropped {
			if d.msg != cur && !bytes.Equal(d.msg.Filter, d.bits) {
				return fmt.Errorf("%s: a message the filter was given earlier and has let go of (Unload / Reload) was modified afterwards: bit array %x, was %x", where, clip(d.msg.Filter), clip(d.bits))
			}
		}
		if f.IsLoaded() != m.loaded {
			return fmt.Errorf("%s: IsLoaded() = %v, want %v", where, f.IsLoaded(), m.loaded)
		}
		msg := f.MsgFilterLoad()
		if !m.loaded {
			if msg != nil {
				return fmt.Errorf("%s: unloaded filter still returns a message", where)
			}
			if f.Matches(op.Data) {
				return fmt.Errorf("%s: unloaded filter matches", where)
			}
			continue
		}
		if msg == nil || !bytes.Equal(msg.Filter, m.bits) {
			var got []byte
			if msg != nil {
				got = msg.Filter
			}
			return fmt.Errorf("%s: bit array %x, BIP37 model %x", where, clip(got), clip(m.bits))
		}
		if msg.HashFuncs != m.k || msg.Tweak != m.tweak || byte(msg.Flags) != m.flags {
			return fmt.Errorf("%s: message parameters changed", where)
		}
		for _, it := range inserted {
			if !f.Matches(it) {
				return fmt.Errorf("%s: inserted item %x is not reported present (false negative)", where, it)
			}
		}
	}
	// filters created afterwards start empty and are BIP37 filters of their own (no storage recycled from
	// the filters used above, whether they were reloaded, unloaded or simply dropped)
	for round := 0; round < 2; round++ {
		nf := bloom.NewFilter(uint32(10+c.Len%50), c.Tweak, 0.01, wire.BloomUpdateType(c.Flags))
		msg := nf.MsgFilterLoad()
		if msg == nil || len(msg.Filter) == 0 {
			break
		}
		if !allZero(msg.Filter) {
			return fmt.Errorf("bloom.NewFilter created after %d operations on another filter starts with bits set: %x", len(c.Ops), clip(msg.Filter))
		}
		nm := newRefBloom(len(msg.Filter), msg.HashFuncs, c.Tweak, c.Flags)
		item := []byte{byte(round), 0x42}
		nf.Add(item)
		nm.add(item)
		if !bytes.Equal(nf.MsgFilterLoad().Filter, nm.bits) {
			return fmt.Errorf("bloom.NewFilter created after other filters were used is not bit-exact BIP37: %x vs model %x", clip(nf.MsgFilterLoad().Filter), clip(nm.bits))
		}
		if round == 0 { // retire it in different ways before the next one is created
			nf.Reload(wire.NewMsgFilterLoad(make([]byte, 4), 1, 0, wire.BloomUpdateNone))
		}
	}
	if sawQueryAfter {
		o.NT()
	}
	return nil
}

func clip(b []byte) []byte {
	if len(b) > 48 {
		return b[:48]
	}
	return b
}

func lenClass(n int) string {
	switch {
	case n == 1:
		return "1"
	case n <= 8:
		return "2-8"
	case n <= 64:
		return "9-64"
	case n < 36000:
		return "65-35999"
	}
	return "36000"
}

func genFilterParams(t *rapid.T, label string) (n int, k, tweak uint32, flags byte) {
	switch rapid.IntRange(0, 9).Draw(t, label+"_len_cls") {
	case 0:
		n = 1
	case 1:
		n = 36000
	case 2:
		n = rapid.SampledFrom([]int{2, 3, 7, 13, 127, 251, 8191, 35999}).Draw(t, label+"_len_p")
	case 3:
		n = rapid.IntRange(1, 36000).Draw(t, label+"_len_u")
	default:
		n = rapid.IntRange(1, 64).Draw(t, label+"_len_s")
	}
	switch rapid.IntRange(0, 5).Draw(t, label+"_k_cls") {
	case 0:
		k = 0
	case 1:
		k = 50
	default:
		k = uint32(rapid.IntRange(1, 50).Draw(t, label+"_k"))
	}
	switch rapid.IntRange(0, 5).Draw(t, label+"_tw_cls") {
	case 0:
		tweak = rapid.SampledFrom([]uint32{0, 1, 1 << 31, 0xffffffff, 2147483649}).Draw(t, label+"_tw_b")
	case 1: // makes i*0xFBA4C795+tweak wrap for small i
		tweak = 0xffffffff - uint32(rapid.IntRange(0, 1<<20).Draw(t, label+"_tw_w"))
	default:
		tweak = rapid.Uint32().Draw(t, label+"_tw")
	}
	flags = byte(rapid.IntRange(0, 2).Draw(t, label+"_flags"))
	if rapid.IntRange(0, 5).Draw(t, label+"_anyflags") == 0 { // the flags byte is a byte on the wire; membership does not depend on it
		flags = rapid.Byte().Draw(t, label+"_flagsbyte")
	}
	return
}

func genC09(t *rapid.T) c09Case {
	c := c09Case{}
	c.Len, c.K, c.Tweak, c.Flags = genFilterParams(t, "f")
	c.Ctor = rapid.SampledFrom([]int{0, 0, 0, 1, 2, 3}).Draw(t, "ctor")
	// small item alphabet so queries hit members
	pool := [][]byte{}
	np := rapid.IntRange(1, 6).Draw(t, "pool")
	for i := 0; i < np; i++ {
		if rapid.IntRange(0, 7).Draw(t, "long") == 0 { // long items (script-sized and beyond the 520-byte push limit)
			pool = append(pool, genBytes(t, "longitem", 71, 1200))
		} else {
			pool = append(pool, genBytes(t, "item", 0, 70))
		}
	}
	item := func() []byte {
		if rapid.IntRange(0, 4).Draw(t, "fresh") == 0 {
			return genBytes(t, "fitem", 0, 70)
		}
		return pool[rapid.IntRange(0, len(pool)-1).Draw(t, "pi")]
	}
	hash32 := func() []byte {
		b := item()
		out := make([]byte, 32)
		copy(out, b)
		return out
	}
	idx := func() uint32 {
		return rapid.SampledFrom([]uint32{0, 1, 2, 255, 256, 65536, 0xffffffff}).Draw(t, "oidx")
	}
	n := rapid.IntRange(1, 30).Draw(t, "nops")
	for i := 0; i < n; i++ {
		if rapid.IntRange(0, 14).Draw(t, "rawop") == 0 {
			// the 36 bytes of an outpoint inserted as plain data: the outpoint is then in the filter, whoever asks how
			h, i := hash32(), idx()
			c.Ops = append(c.Ops, bloomOp{Op: "add", Data: outpointBytes(h, i)}, bloomOp{Op: "matchesoutpoint", Data: h, Index: i})
			continue
		}
		switch rapid.IntRange(0, 19).Draw(t, "op") {
		case 0, 1, 2, 3, 4:
			c.Ops = append(c.Ops, bloomOp{Op: "add", Data: item()})
		case 5, 6:
			c.Ops = append(c.Ops, bloomOp{Op: "addhash", Data: hash32()})
		case 7, 8:
			c.Ops = append(c.Ops, bloomOp{Op: "addoutpoint", Data: hash32(), Index: idx()})
		case 9, 10, 11, 12, 13:
			c.Ops = append(c.Ops, bloomOp{Op: "matches", Data: item()})
		case 14, 15, 16:
			c.Ops = append(c.Ops, bloomOp{Op: "matchesoutpoint", Data: hash32(), Index: idx()})
		case 17:
			c.Ops = append(c.Ops, bloomOp{Op: "unload", Index: uint32(rapid.IntRange(0, 1).Draw(t, "how"))})
		default:
			op := bloomOp{Op: "reload"}
			op.Len, op.K, op.Tweak, op.Flags = genFilterParams(t, "r")
			c.Ops = append(c.Ops, op)
		}
	}
	return c
}

var kC09 = register(&Kind[c09Case]{Prop: "C09", Name: "ops", Gen: genC09, Eval: evalC09})

// ---- kind: murmur -------------------------------------------------------------------

type c09Murmur struct {
	Seed uint32   `json:"seed"`
	Data HexBytes `json:"data"`
}

var kC09Murmur = register(&Kind[c09Murmur]{
	Prop: "C09", Name: "murmur",
	Gen: func(t *rapid.T) c09Murmur {
		if rapid.IntRange(0, 19).Draw(t, "long") == 0 { // lengths whose upper half-word is not zero, block-aligned and not
			n := rapid.SampledFrom([]int{65535, 65536, 65537, 65539, 131072, 200003}).Draw(t, "longlen")
			d := bytes.Repeat(genBytesN(t, "unit", 7), n/7+1)[:n]
			return c09Murmur{Seed: rapid.Uint32().Draw(t, "seed"), Data: d}
		}
		return c09Murmur{Seed: rapid.Uint32().Draw(t, "seed"), Data: genBytes(t, "data", 0, 64)}
	},
	Eval: func(c c09Murmur, o *Obs) error {
		if len(c.Data) > 0 {
			o.NT()
		}
		o.Class("C09:murmur-len%%4=%d", len(c.Data)%4)
		if got, want := bloom.MurmurHash3(c.Seed, c.Data), refMurmur3(c.Seed, c.Data); got != want {
			return fmt.Errorf("MurmurHash3(%#x,%x) = %#x, reference %#x", c.Seed, []byte(c.Data), got, want)
		}
		// the same bytes as a window of a larger buffer: what lies behind them is not part of the item
		for _, fill := range []byte{0x00, 0xff, 0x5a} {
			buf := append(append([]byte{fill}, c.Data...), fill, fill, fill, fill, fill)
			if got, want := bloom.MurmurHash3(c.Seed, buf[1:1+len(c.Data)]), refMurmur3(c.Seed, c.Data); got != want {
				return fmt.Errorf("MurmurHash3(%#x,%x) = %#x when the item is followed by bytes %#x in the caller's buffer, reference %#x", c.Seed, []byte(c.Data), got, fill, want)
			}
		}
		return nil
	},
})

// ---- kind: concurrent insertion -----------------------------------------------------------------
// "Every inserted item is reported present" does not stop holding because two insertions happen at the same
// time (the filter is documented safe for concurrent use; the interleavings proper are C20's subject): several
// goroutines insert into one small filter at once, many times over; afterwards nothing may be missing and the
// bit array is the OR of all insertions.

type c09Conc struct {
	Len    int    `json:"len"`
	K      uint32 `json:"k"`
	Tweak  uint32 `json:"tweak"`
	N      int    `json:"items"` // item i (8 bytes derived from tweak and i) is inserted by goroutine i % G, once
	G      int    `json:"goroutines"`
	Rounds int    `json:"rounds"`
	Method int    `json:"method"` // all items go in through Add (0), AddHash (1) or AddOutPoint (2)
	// Reload: meanwhile one more goroutine keeps re-loading two messages of different size / function count / tweak
	Reload bool `json:"reload,omitempty"`
}

func evalC09Conc(c c09Conc, o *Obs) error {
	if c.Len < 1 || c.Len > 4096 || c.K < 1 || c.K > 50 || c.G < 2 || c.G > 16 || c.N < c.G || c.N > 20000 || c.Rounds < 1 || c.Rounds > 100000 {
		return hbug("bad concurrent-insert case")
	}
	o.NT()
	o.Class("C09:concurrent-insertion")
	items := make([][]byte, c.N)
	m := newRefBloom(c.Len, c.K, c.Tweak, 0)
	for i := range items {
		items[i] = derivedItem(c.Tweak, i)
		switch c.Method {
		case 1:
			items[i] = toHash(items[i])[:]
		case 2:
			items[i] = outpointBytes(toHash(items[i])[:], uint32(i))
		}
		m.add(items[i])
	}
	// the second geometry and what the items can set under it
	len2, k2, tweak2 := c.Len/2+3, c.K%3+1, c.Tweak^0x9e3779b9
	m2 := newRefBloom(len2, k2, tweak2, 0)
	for _, it := range items {
		m2.add(it)
	}
	for r := 0; r < c.Rounds; r++ {
		msgA := wire.NewMsgFilterLoad(make([]byte, c.Len), c.K, c.Tweak, wire.BloomUpdateNone)
		msgB := wire.NewMsgFilterLoad(make([]byte, len2), k2, tweak2, wire.BloomUpdateNone)
		f := bloom.LoadFilter(msgA)
		var wg sync.WaitGroup
		panicCh := make(chan error, 16)
		start := make(chan struct{})
		if c.Reload {
			wg.Add(1)
			go func() {
				defer wg.Done()
				defer c20Recover(panicCh)
				<-start
				for i := 0; i < 2*len(items)/c.G+2; i++ {
					if i%2 == 0 {
						f.Reload(msgB)
					} else {
						f.Reload(msgA)
					}
				}
			}()
		}
		for g := 0; g < c.G; g++ {
			g := g
			wg.Add(1)
			go func() {
				defer wg.Done()
				defer c20Recover(panicCh)
				<-start
				for i := g; i < len(items); i += c.G {
					switch c.Method {
					case 0:
						f.Add(items[i])
					case 1:
						f.AddHash(toHash(items[i]))
					default:
						f.AddOutPoint(wire.NewOutPoint(toHash(items[i][:32]), uint32(i)))
					}
				}
			}()
		}
		close(start)
		if err := c20Join(&wg, panicCh, fmt.Sprintf("(filter len=%d k=%d, %d inserting goroutines, reload=%v)", c.Len, c.K, c.G, c.Reload)); err != nil {
			return err
		}
		if c.Reload {
			// each insertion went into one of the two messages, with that message's geometry: no bit may be set
			// that no item sets under the message's own size, function count and tweak
			for name, pair := range map[string][2][]byte{"first": {msgA.Filter, m.bits}, "second": {msgB.Filter, m2.bits}} {
				for i := range pair[0] {
					if pair[0][i]&^pair[1][i] != 0 {
						return fmt.Errorf("filter re-loaded during insertions (round %d): the %s message (len %d) has bits %x set in byte %d that no inserted item sets under that message's parameters (bits computed for the other message were written into it)",
							r, name, len(pair[0]), pair[0][i]&^pair[1][i], i)
					}
				}
			}
			continue
		}
		if got := f.MsgFilterLoad().Filter; !bytes.Equal(got, m.bits) {
			return fmt.Errorf("filter(len=%d,k=%d): after %d goroutines inserted %d different items at the same time (round %d) the bit array is %x; the OR of all insertions is %x (an insertion was lost)",
				c.Len, c.K, c.G, len(items), r, clip(got), clip(m.bits))
		}
	}
	return nil
}

var kC09Conc = register(&Kind[c09Conc]{Prop: "C09", Name: "concurrent-insert", Eval: evalC09Conc,
	Gen: func(t *rapid.T) c09Conc {
		c := c09Conc{Len: rapid.SampledFrom([]int{8, 16, 64, 256, 3, 5, 7, 9, 13, 63, 65, 255, 257}).Draw(t, "len"), K: uint32(rapid.IntRange(1, 3).Draw(t, "k")), Tweak: rapid.Uint32().Draw(t, "tweak"),
			G: rapid.IntRange(2, 8).Draw(t, "g"), Rounds: pick(200, 2000), Method: rapid.IntRange(0, 2).Draw(t, "method"), Reload: rapid.IntRange(0, 2).Draw(t, "reload") == 0}
		c.N = c.Len * 4 / int(c.K) // about half of the bits end up set: most insertions set a bit for the first time
		if c.N < c.G {
			c.N = c.G
		}
		return c
	}})

// ---- kind: bulk ---------------------------------------------------------------------------------
// Tens of thousands of probes into one filter of an awkward size (primes, powers of two +-1, the maximum):
// whatever replaces "hash modulo the number of bits" has to be exact for every hash value, not for most.

type c09Bulk struct {
	Len   int    `json:"len"`
	K     uint32 `json:"k"`
	Tweak uint32 `json:"tweak"`
	N     int    `json:"items"`
}

func evalC09Bulk(c c09Bulk, o *Obs) error {
	if c.Len < 1 || c.Len > 36000 || c.K < 1 || c.K > 50 || c.N < 1 || c.N > 200000 {
		return hbug("bad bulk case")
	}
	o.NT()
	o.Class("C09:bulk")
	f := bloom.LoadFilter(wire.NewMsgFilterLoad(make([]byte, c.Len), c.K, c.Tweak, wire.BloomUpdateNone))
	m := newRefBloom(c.Len, c.K, c.Tweak, 0)
	for i := 0; i < c.N; i++ {
		it := derivedItem(c.Tweak^0x5bd1e995, i)
		if i%2 == 0 {
			if got, want := f.Matches(it), m.has(it); got != want {
				return fmt.Errorf("filter(len=%d,k=%d,tweak=%d): Matches(%x) = %v before insertion, BIP37 model says %v (item %d of a bulk run)", c.Len, c.K, c.Tweak, it, got, want, i)
			}
		}
		f.Add(it)
		m.add(it)
	}
	if got := f.MsgFilterLoad().Filter; !bytes.Equal(got, m.bits) {
		for i := range got {
			if got[i] != m.bits[i] {
				return fmt.Errorf("filter(len=%d,k=%d,tweak=%d) after %d insertions: byte %d is %#x, BIP37 model %#x", c.Len, c.K, c.Tweak, c.N, i, got[i], m.bits[i])
			}
		}
	}
	return nil
}

var kC09Bulk = register(&Kind[c09Bulk]{Prop: "C09", Name: "bulk", Eval: evalC09Bulk,
	Gen: func(t *rapid.T) c09Bulk {
		return c09Bulk{Len: rapid.SampledFrom([]int{1, 2, 3, 7, 127, 128, 129, 509, 512, 1021, 2501, 4099, 8191, 8192, 8193, 16411, 20011, 32768, 32771, 35999, 36000}).Draw(t, "len"),
			K: uint32(rapid.SampledFrom([]int{1, 2, 5, 11, 50}).Draw(t, "k")), Tweak: rapid.Uint32().Draw(t, "tweak"), N: pick(6000, 60000)}
	}})

// ---- kind: sizing -------------------------------------------------------------------

type c09Size struct {
	Elements uint32   `json:"elements"`
	Tweak    uint32   `json:"tweak"`
	FPBits   uint64   `json:"fprate_bits"`
	FPText   string   `json:"fprate"`
	Flags    byte     `json:"flags"`
	Item     HexBytes `json:"item"`
}

func evalC09Size(c c09Size, o *Obs) error {
	fp := math.Float64frombits(c.FPBits)
	f := bloom.NewFilter(c.Elements, c.Tweak, fp, wire.BloomUpdateType(c.Flags))
	msg := f.MsgFilterLoad()
	if msg == nil {
		return fmt.Errorf("NewFilter(%d,%d,%v) is not loaded", c.Elements, c.Tweak, fp)
	}
	o.NT()
	if len(msg.Filter) > wire.MaxFilterLoadFilterSize || msg.HashFuncs > wire.MaxFilterLoadHashFuncs {
		return fmt.Errorf("NewFilter(%d,%d,%v): %d filter bytes, %d hash functions - outside the wire limits (36000, 50)",
			c.Elements, c.Tweak, fp, len(msg.Filter), msg.HashFuncs)
	}
	if msg.Tweak != c.Tweak || byte(msg.Flags) != c.Flags {
		return fmt.Errorf("NewFilter(%d,%d,%v): tweak/flags not stored", c.Elements, c.Tweak, fp)
	}
	if len(msg.Filter) == 0 {
		o.Class("C09:sized-empty(not used further; C08 covers empty filters)")
		return nil
	}
	o.Class("C09:sized-nonempty")
	m := newRefBloom(len(msg.Filter), msg.HashFuncs, c.Tweak, c.Flags)
	f.Add(c.Item)
	m.add(c.Item)
	if !f.Matches(c.Item) || !bytes.Equal(f.MsgFilterLoad().Filter, m.bits) {
		return fmt.Errorf("NewFilter(%d,%d,%v): after Add(%x) item missing or bits differ from the BIP37 model", c.Elements, c.Tweak, fp, []byte(c.Item))
	}
	return nil
}

var kC09Size = register(&Kind[c09Size]{
	Prop: "C09", Name: "sizing",
	Gen: func(t *rapid.T) c09Size {
		c := c09Size{Tweak: rapid.Uint32().Draw(t, "tweak"), Flags: byte(rapid.IntRange(0, 2).Draw(t, "flags")),
			Item: genBytes(t, "item", 0, 40)}
		switch rapid.IntRange(0, 3).Draw(t, "el_cls") {
		case 0:
			c.Elements = rapid.SampledFrom([]uint32{0, 1, 2, 3, 0xffffffff, 1 << 31, 20000, 30000}).Draw(t, "el_b")
		case 1:
			c.Elements = uint32(rapid.IntRange(0, 2000).Draw(t, "el_s"))
		default:
			c.Elements = rapid.Uint32().Draw(t, "el")
		}
		var fp float64
		switch rapid.IntRange(0, 5).Draw(t, "fp_cls") {
		case 0:
			fp = rapid.SampledFrom([]float64{0, -1, 1, 1.5, 1e-9, 1e-12, math.NaN(), math.Inf(1), math.Inf(-1), 0.5, 1e-300}).Draw(t, "fp_b")
		case 1:
			fp = math.Float64frombits(rapid.Uint64().Draw(t, "fp_bits"))
		default:
			fp = math.Pow(10, -rapid.Float64Range(0, 12).Draw(t, "fp_exp"))
		}
		c.FPBits = math.Float64bits(fp)
		c.FPText = fmt.Sprint(fp)
		return c
	},
	Eval: evalC09Size,
})

func TestC09(t *testing.T) {
	propTest(t, "C09", func(ev *Ev) {
		ev.Rule("filter (1..36000 bytes biased to 1..64 plus 36000 and primes, k 0..50, tweaks incl. seed-wrapping values, flags) x op "+
			"sequences (<=30) of Add/AddHash/AddOutPoint/Matches/MatchesOutPoint/Unload/Reload over a small item pool (lengths 0..70, "+
			"all lengths mod 4), run in lock-step with an independent BIP37 model (own MurmurHash3): bit array equal after every "+
			"step, every answer equal, every item inserted since the last (re)load present, unloaded => matches nothing/ignores "+
			"inserts; MurmurHash3 vs reference on random (seed,data); NewFilter sizing over (elements, fprate incl. <=0, >1, NaN, Inf) "+
			"stays within the wire limits. Non-trivial = sequence with an insertion followed by a query on a loaded filter with k>=1.",
			"reference MurmurHash3/BIP37 pinned to Bitcoin Core's published vectors", "empty filters (0 bytes) are outside the statement's 1..36000 range")
		refSelfBloom(ev)
		if len(ev.harnessErrors) > 0 {
			return
		}
		kC09.Run(t, ev, perShard(pick(3000, 2000000)))
		kC09Murmur.Run(t, ev, perShard(pick(3000, 2000000)))
		kC09Size.Run(t, ev, perShard(pick(2000, 1000000)))
		kC09Conc.Run(t, ev, perShard(pick(36, 600)))
		kC09Bulk.Run(t, ev, perShard(pick(40, 800)))
		ev.requireClasses("C09:k=0", "C09:k=50", "C09:len-class=1", "C09:len-class=36000", "C09:reload", "C09:unload",
			"C09:add-len%4=0", "C09:add-len%4=1", "C09:add-len%4=2", "C09:add-len%4=3", "C09:sized-nonempty", "C09:add-item>520-bytes")
	})
}
