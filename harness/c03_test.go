package harness

// C03 Address checksums detect every corruption they are specified to detect.
//
// Step 1 (rapid): the remainder is affine over GF(2) in the symbol bits.
// Step 2 (exhaustive): in syndrome space, no non-zero error pattern of weight <=5
//         (CashAddr, 112-symbol window) / <=4 (bech32, 88-symbol window) has syndrome 0.
// Step 3 (rapid + exhaustive single substitutions): the decoder really uses that
//         remainder - concrete corrupted strings are rejected, acceptance agrees with
//         the reference arithmetic.

import (
	"cmp"
	"fmt"
	"math/bits"
	"os"
	"slices"
	"sort"
	"strings"
	"sync"
	"sync/atomic"
	"testing"
	"time"

	"github.com/gcash/bchutil"
	"github.com/gcash/bchutil/bech32"
	"pgregory.net/rapid"
)

// ---- step 3: concrete substitutions -------------------------------------------------

type c03Sub struct {
	Codec  string   `json:"codec"` // "cashaddr" | "bech32"
	Prefix string   `json:"prefix"`
	Syms   HexBytes `json:"symbols"` // payload symbols without checksum
	Upper  bool     `json:"upper"`
	Pos    []int    `json:"pos"`   // positions in the payload part (incl. checksum), taken mod length
	Chars  HexBytes `json:"chars"` // replacement bytes
	// AllSingles: additionally try every single-position substitution by every byte value
	AllSingles bool `json:"all_singles"`
}

func c03Valid(c c03Sub) (full string, payloadStart int) {
	if c.Codec == "cashaddr" {
		body := refCashEncodeSymbols(c.Prefix, c.Syms)
		full = c.Prefix + ":" + body
		payloadStart = len(c.Prefix) + 1
	} else {
		full = refBech32Encode(c.Prefix, c.Syms)
		payloadStart = len(c.Prefix) + 1
	}
	if c.Upper {
		full = asciiUpper(full)
	}
	return
}

func c03ImplAccepts(codec, s string) bool {
	if codec == "cashaddr" {
		_, _, err := bchutil.DecodeCashAddress(s)
		return err == nil
	}
	_, _, err := bech32.Decode(s)
	return err == nil
}

// c03AddrAccepts: DecodeAddress with an explicit prefix is the second CashAddr decoding
// entry point; a corrupted prefix-qualified string must be rejected there too (on
// every network that uses the prefix).
func c03AddrAccepts(prefix, s string) bool {
	for _, n := range nets {
		if n.Params.CashAddressPrefix == prefix || (n.Params.SlpAddressPrefix != "" && n.Params.SlpAddressPrefix == prefix) {
			if _, err := bchutil.DecodeAddress(s, n.Params); err == nil {
				return true
			}
		}
	}
	return false
}

func c03RefAccepts(codec, s string) bool {
	if codec == "cashaddr" {
		lower, upper := asciiLower(s), asciiUpper(s)
		if s != lower && s != upper {
			return false
		}
		i := strings.IndexByte(lower, ':')
		if i < 1 {
			return false
		}
		for j := 0; j < i; j++ {
			if lower[j] < 'a' || lower[j] > 'z' {
				return false
			}
		}
		_, err := refCashDecodeRaw(lower[:i], lower[i+1:])
		return err == nil
	}
	_, _, err := refBech32Decode(s)
	return err == nil
}

func symbolOf(ch byte) int {
	if ch >= 'A' && ch <= 'Z' {
		ch += 32
	}
	return strings.IndexByte(b32Charset, ch)
}

func evalC03Sub(c c03Sub, o *Obs) error {
	if c.Codec != "cashaddr" && c.Codec != "bech32" {
		return hbug("bad codec")
	}
	valid, start := c03Valid(c)
	if !c03ImplAccepts(c.Codec, valid) {
		o.Class("C03:valid-string-rejected(" + c.Codec + ")")
		return nil // completeness is C01/C07's job
	}
	o.Class("C03:" + c.Codec + "-valid-accepted")
	plen := len(valid) - start
	maxW := 5
	if c.Codec == "bech32" {
		maxW = 4
	}
	// the generated multi-substitution
	b := []byte(valid)
	changed := map[int]bool{}
	for i, p := range c.Pos {
		if i >= len(c.Chars) || len(changed) >= maxW {
			break
		}
		pos := start + ((p%plen)+plen)%plen
		ch := c.Chars[i]
		if changed[pos] {
			continue
		}
		// a substitution must denote a different symbol (or no symbol at all)
		if symbolOf(ch) == symbolOf(valid[pos]) && symbolOf(ch) >= 0 {
			continue
		}
		b[pos] = ch
		changed[pos] = true
	}
	if len(changed) > 0 {
		o.NT()
		o.Class("C03:%s-weight-%d", c.Codec, len(changed))
		s := string(b)
		if c03ImplAccepts(c.Codec, s) {
			return fmt.Errorf("%s decoder accepts %q, obtained from the valid string %q by substituting %d payload characters",
				c.Codec, s, valid, len(changed))
		}
		if c.Codec == "cashaddr" && c03AddrAccepts(c.Prefix, s) {
			return fmt.Errorf("DecodeAddress accepts %q, obtained from the valid string %q by substituting %d payload characters",
				s, valid, len(changed))
		}
	}
	if c.Codec == "cashaddr" && c03AddrAccepts(c.Prefix, valid) {
		o.Class("C03:cashaddr-valid-is-an-address")
	}
	if c.AllSingles {
		o.Class("C03:" + c.Codec + "-all-singles")
		// multi-byte characters that Unicode case mapping sends to ASCII letters, and look-alikes
		for pos := start; pos < len(valid); pos++ {
			for _, r := range []string{"\u212a", "\u017f", "\u0130", "\u0131", "\uff51", "\u00df"} {
				s := valid[:pos] + r + valid[pos+1:]
				if c03ImplAccepts(c.Codec, s) || (c.Codec == "cashaddr" && c03AddrAccepts(c.Prefix, s)) {
					return fmt.Errorf("%s decoder accepts %q: the character at payload position %d of valid %q replaced by U+%04X", c.Codec, s, pos-start, valid, []rune(r)[0])
				}
			}
		}
		// a character outside the alphabet next to a substituted one: a decoder that maps foreign characters to
		// an out-of-range value instead of rejecting them lets that value spill into the neighbouring symbol
		if len(valid)%3 == 0 {
			o.Class("C03:" + c.Codec + "-foreign-neighbour-sweep")
			for pos := start; pos+1 < len(valid); pos++ {
				for _, f := range []byte{'b', 'i', 'o', '1', 'B', 0xff} {
					if c.Codec == "bech32" && f == '1' {
						continue // would move the separator
					}
					for _, fp := range []int{pos, pos + 1} { // the foreign character before or after the substituted one
						sp := pos + 1
						if fp == sp {
							sp = pos
						}
						bb := []byte(valid)
						bb[fp] = f
						for _, ch := range []byte(b32Charset) {
							if ch == valid[sp] {
								continue
							}
							bb[sp] = ch
							s := string(bb)
							if c03ImplAccepts(c.Codec, s) {
								return fmt.Errorf("%s decoder accepts %q: two substitutions (one of them the foreign character %q) at payload positions %d and %d of valid %q",
									c.Codec, s, f, pos-start, pos+1-start, valid)
							}
						}
					}
				}
			}
		}
		for pos := start; pos < len(valid); pos++ {
			orig := valid[pos]
			bb := []byte(valid)
			for v := 0; v < 256; v++ {
				ch := byte(v)
				if ch == orig {
					continue
				}
				sameSym := symbolOf(ch) >= 0 && symbolOf(ch) == symbolOf(orig)
				bb[pos] = ch
				s := string(bb)
				if sameSym && c.Codec == "bech32" && (s == asciiLower(s) || s == asciiUpper(s)) {
					continue // other-case rendering of the same symbol in a string without other letters: a valid rendering
				}
				acc := c03ImplAccepts(c.Codec, s) || (c.Codec == "cashaddr" && c03AddrAccepts(c.Prefix, s))
				if acc {
					return fmt.Errorf("%s decoder accepts %q: single substitution at payload position %d of valid %q",
						c.Codec, s, pos-start, valid)
				}
				if ref := c03RefAccepts(c.Codec, s); ref != acc {
					return fmt.Errorf("%s decoder and reference disagree on %q (impl %v, ref %v)", c.Codec, s, acc, ref)
				}
			}
		}
	}
	return nil
}

var cashStdSymLens = []int{34, 40, 47, 53, 66, 78, 91, 104} // payload symbols for 160..512-bit hashes

func genC03Sub(t *rapid.T) c03Sub {
	c := c03Sub{Upper: rapid.IntRange(0, 4).Draw(t, "upper") == 0}
	if rapid.Bool().Draw(t, "cash") {
		c.Codec = "cashaddr"
		c.Prefix = genKnownPrefix(t)
		if rapid.IntRange(0, 3).Draw(t, "anyprefix") == 0 {
			// DecodeCashAddress takes any prefix of letters: every letter of the alphabet gets its turn, the ends most often
			b := make([]byte, rapid.IntRange(1, 12).Draw(t, "plen"))
			for i := range b {
				b[i] = byte(rapid.IntRange('a', 'z').Draw(t, "pch"))
				if rapid.IntRange(0, 3).Draw(t, "pedge") == 0 {
					b[i] = rapid.SampledFrom([]byte{'a', 'z', 'p', 'q', 'y'}).Draw(t, "pedgech")
				}
			}
			c.Prefix = string(b)
		}
		n := rapid.SampledFrom(cashStdSymLens).Draw(t, "symlen")
		c.Syms = make([]byte, n)
		for i := range c.Syms {
			c.Syms[i] = byte(rapid.IntRange(0, 31).Draw(t, "sym"))
		}
		if rapid.Bool().Draw(t, "address") { // a real address payload (so DecodeAddress accepts the uncorrupted string)
			ver, hl := byte(0), 20
			switch rapid.IntRange(0, 2).Draw(t, "akind") {
			case 1:
				ver = 0x08
			case 2:
				ver, hl = 0x0b, 32
			}
			c.Syms, _ = refConvertBits(append([]byte{ver}, genBytesN(t, "ahash", hl)...), 8, 5, true)
		}
	} else {
		c.Codec = "bech32"
		c.Prefix = genHrp(t, 12)
		max := 90 - len(c.Prefix) - 7
		n := rapid.IntRange(0, max).Draw(t, "n")
		if rapid.Bool().Draw(t, "full") {
			n = max
		}
		c.Syms = make([]byte, n)
		for i := range c.Syms {
			c.Syms[i] = byte(rapid.IntRange(0, 31).Draw(t, "sym"))
		}
	}
	w := rapid.IntRange(1, 5).Draw(t, "w")
	for i := 0; i < w; i++ {
		c.Pos = append(c.Pos, rapid.IntRange(0, 200).Draw(t, "pos"))
		switch rapid.IntRange(0, 3).Draw(t, "chcls") {
		case 0:
			c.Chars = append(c.Chars, rapid.Byte().Draw(t, "ch"))
		default:
			ch := b32Charset[rapid.IntRange(0, 31).Draw(t, "chsym")]
			if c.Upper && ch >= 'a' && ch <= 'z' {
				ch -= 32
			}
			c.Chars = append(c.Chars, ch)
		}
	}
	c.AllSingles = rapid.IntRange(0, 9).Draw(t, "singles") == 0
	return c
}

var kC03Sub = register(&Kind[c03Sub]{Prop: "C03", Name: "substitute", Gen: genC03Sub, Eval: evalC03Sub})

// ---- concurrent decoding of a valid string and corrupted copies with the same prefix ----------

func evalC03Conc(c c03Sub, o *Obs) error {
	valid, start := c03Valid(c)
	if !c03ImplAccepts(c.Codec, valid) {
		return nil
	}
	plen := len(valid) - start
	var corrupt []string
	for k := 0; k+1 < len(c.Pos) || k == 0; k++ { // several corrupted copies, 1..2 substitutions each
		b := []byte(valid)
		n := 0
		for i := k; i < len(c.Pos) && i < len(c.Chars) && n < 2; i++ {
			pos := start + ((c.Pos[i]%plen)+plen)%plen
			ch := c.Chars[i]
			if symbolOf(ch) < 0 || symbolOf(ch) == symbolOf(valid[pos]) {
				ch = b32Charset[(symbolOf(valid[pos])+1+i)%32]
				if c.Upper {
					ch = asciiUpper(string(ch))[0]
				}
			}
			b[pos] = ch
			n++
		}
		if s := string(b); s != valid && !c03ImplAccepts(c.Codec, s) {
			corrupt = append(corrupt, s)
		}
		if len(corrupt) >= 3 {
			break
		}
	}
	if len(corrupt) == 0 {
		return nil
	}
	o.NT()
	o.Class("C03:concurrent-" + c.Codec)
	loops := 300
	if os.Getenv("VERIF_REPLAY") != "" {
		loops = 20000
	}
	errs := make(chan error, len(corrupt)+1)
	var wg sync.WaitGroup
	begin := make(chan struct{})
	run := func(s string, wantOK bool) {
		defer wg.Done()
		<-begin
		for i := 0; i < loops; i++ {
			if got := c03ImplAccepts(c.Codec, s); got != wantOK {
				errs <- fmt.Errorf("%s decoder: %q accepted=%v while %q and its corrupted copies are decoded concurrently (alone: %v)", c.Codec, s, got, valid, wantOK)
				return
			}
		}
	}
	wg.Add(1 + len(corrupt))
	go run(valid, true)
	for _, s := range corrupt {
		go run(s, false)
	}
	close(begin)
	wg.Wait()
	select {
	case err := <-errs:
		return err
	default:
	}
	return nil
}

var kC03Conc = register(&Kind[c03Sub]{Prop: "C03", Name: "concurrent", Gen: genC03Sub, Eval: evalC03Conc})

// ---- step 1: affine linearity of the remainder --------------------------------------

type c03Lin struct {
	Codec  string   `json:"codec"`
	Prefix string   `json:"prefix"`
	X      HexBytes `json:"x"`
	Y      HexBytes `json:"y"`
	E1     HexBytes `json:"e1"`
	E2     HexBytes `json:"e2"`
}

func xorBytes(a, b []byte) []byte {
	out := make([]byte, len(a))
	for i := range a {
		out[i] = a[i] ^ b[i]
	}
	return out
}

func c03Remainder(codec, prefix string, syms []byte) uint64 {
	if codec == "cashaddr" {
		return implCashRemainder(prefix, syms)
	}
	return implBech32Remainder(prefix, syms)
}

func evalC03Lin(c c03Lin, o *Obs) error {
	n := len(c.X)
	if len(c.Y) != n || len(c.E1) != n || len(c.E2) != n {
		return hbug("length mismatch")
	}
	R := func(v []byte) uint64 { return c03Remainder(c.Codec, c.Prefix, v) }
	s1x := R(xorBytes(c.X, c.E1)) ^ R(c.X)
	s1y := R(xorBytes(c.Y, c.E1)) ^ R(c.Y)
	if s1x != s1y {
		return fmt.Errorf("%s remainder is not affine: syndrome of error %x depends on the codeword (%#x vs %#x)",
			c.Codec, []byte(c.E1), s1x, s1y)
	}
	s2 := R(xorBytes(c.X, c.E2)) ^ R(c.X)
	s12 := R(xorBytes(c.X, xorBytes(c.E1, c.E2))) ^ R(c.X)
	if s12 != s1x^s2 {
		return fmt.Errorf("%s remainder is not linear: S(e1^e2) = %#x, S(e1)^S(e2) = %#x", c.Codec, s12, s1x^s2)
	}
	// the syndrome does not depend on the prefix either (window positions are
	// counted from the end)
	other := "z"
	if c.Codec == "bech32" {
		other = "q"
	}
	if s := c03Remainder(c.Codec, other, xorBytes(c.X, c.E1)) ^ c03Remainder(c.Codec, other, c.X); s != s1x {
		return fmt.Errorf("%s syndrome depends on the prefix", c.Codec)
	}
	// agreement with the reference arithmetic (40/30-bit values in hook mode)
	if hookMode {
		var ref uint64
		if c.Codec == "cashaddr" {
			ref = refCashPolymod(append(refCashPrefixExpand(c.Prefix), c.X...))
		} else {
			ref = uint64(refBech32Polymod(append(refBech32HrpExpand(c.Prefix), c.X...)))
		}
		if ref != R(c.X) {
			return fmt.Errorf("%s remainder of %x under %q is %#x, specification gives %#x", c.Codec, []byte(c.X), c.Prefix, R(c.X), ref)
		}
	}
	if n > 0 {
		o.NT()
	}
	o.Class("C03:linearity-" + c.Codec)
	return nil
}

func genSyms(t *rapid.T, label string, n int, sparse bool) []byte {
	out := make([]byte, n)
	if sparse {
		w := rapid.IntRange(0, 6).Draw(t, label+"_w")
		for i := 0; i < w && n > 0; i++ {
			out[rapid.IntRange(0, n-1).Draw(t, label+"_p")] = byte(rapid.IntRange(1, 31).Draw(t, label+"_v"))
		}
		return out
	}
	for i := range out {
		out[i] = byte(rapid.IntRange(0, 31).Draw(t, label))
	}
	return out
}

var kC03Lin = register(&Kind[c03Lin]{
	Prop: "C03", Name: "linearity",
	Gen: func(t *rapid.T) c03Lin {
		c := c03Lin{}
		var n int
		if rapid.Bool().Draw(t, "cash") {
			c.Codec = "cashaddr"
			c.Prefix = rapid.StringMatching("[a-z]{1,12}").Draw(t, "prefix")
			n = rapid.IntRange(8, 112).Draw(t, "n")
		} else {
			c.Codec = "bech32"
			c.Prefix = genHrp(t, 20)
			n = rapid.IntRange(6, 88).Draw(t, "n")
		}
		c.X = genSyms(t, "x", n, false)
		c.Y = genSyms(t, "y", n, false)
		c.E1 = genSyms(t, "e1", n, rapid.Bool().Draw(t, "sp1"))
		c.E2 = genSyms(t, "e2", n, rapid.Bool().Draw(t, "sp2"))
		return c
	},
	Eval: evalC03Lin,
})

// ---- step 2: exhaustive enumeration in syndrome space -------------------------------

type c03Witness struct {
	Codec     string `json:"codec"`
	Valid     string `json:"valid"`
	Corrupted string `json:"corrupted"`
}

// evalC03Witness: a concrete pair; the corrupted string must be rejected.
func evalC03Witness(c c03Witness, o *Obs) error {
	if len(c.Valid) != len(c.Corrupted) {
		return hbug("witness lengths differ")
	}
	diff := 0
	for i := range c.Valid {
		if c.Valid[i] != c.Corrupted[i] {
			diff++
		}
	}
	o.NT()
	if c.Codec == "cashaddr-address" { // the pair is judged through DecodeAddress with the explicit prefix
		i := strings.IndexByte(c.Valid, ':')
		if i < 1 || !c03AddrAccepts(asciiLower(c.Valid[:i]), c.Valid) {
			return nil
		}
		if diff > 0 && c03AddrAccepts(asciiLower(c.Valid[:i]), c.Corrupted) {
			return fmt.Errorf("DecodeAddress accepts both %q and %q, which differ in only %d payload positions", c.Valid, c.Corrupted, diff)
		}
		return nil
	}
	if !c03ImplAccepts(c.Codec, c.Valid) {
		return nil
	}
	if diff > 0 && c03ImplAccepts(c.Codec, c.Corrupted) {
		return fmt.Errorf("%s decoder accepts both %q and %q, which differ in only %d payload positions",
			c.Codec, c.Valid, c.Corrupted, diff)
	}
	return nil
}

var kC03Witness = register(&Kind[c03Witness]{
	Prop: "C03", Name: "witness",
	Gen:  func(t *rapid.T) c03Witness { return c03Witness{} },
	Eval: evalC03Witness,
})

type pat struct {
	pos [3]uint8
	val [3]uint8
	n   int
}

// syndromeTable computes S(j,v) for every position j (counted from the end) and
// value v in 1..31 on a window of w symbols.
func syndromeTable(codec string, w int) [][32]uint64 {
	prefix := "bitcoincash"
	if codec == "bech32" {
		prefix = "a"
	}
	zero := make([]byte, w)
	base := c03Remainder(codec, prefix, zero)
	tab := make([][32]uint64, w)
	for j := 0; j < w; j++ {
		for v := 1; v < 32; v++ {
			e := make([]byte, w)
			e[w-1-j] = byte(v)
			tab[j][v] = c03Remainder(codec, prefix, e) ^ base
		}
	}
	return tab
}

type t2Entry struct {
	s uint64
	p uint32 // packed pattern: j1(7) v1(5) j2(7) v2(5); weight 1 has j2=127
}

func packPat(j1, v1, j2, v2 int) uint32 {
	return uint32(j1)<<17 | uint32(v1)<<12 | uint32(j2)<<5 | uint32(v2)
}

func unpackPat(p uint32) (j1, v1, j2, v2 int) {
	return int(p >> 17 & 127), int(p >> 12 & 31), int(p >> 5 & 127), int(p & 31)
}

// buildT2 returns all syndromes of weight 1 and 2 on the window, sorted.
func buildT2(tab [][32]uint64) []t2Entry {
	w := len(tab)
	out := make([]t2Entry, 0, w*31+w*(w-1)/2*961)
	for j := 0; j < w; j++ {
		for v := 1; v < 32; v++ {
			out = append(out, t2Entry{tab[j][v], packPat(j, v, 127, 0)})
		}
	}
	for j1 := 0; j1 < w; j1++ {
		for j2 := j1 + 1; j2 < w; j2++ {
			for v1 := 1; v1 < 32; v1++ {
				s1 := tab[j1][v1]
				for v2 := 1; v2 < 32; v2++ {
					out = append(out, t2Entry{s1 ^ tab[j2][v2], packPat(j1, v1, j2, v2)})
				}
			}
		}
	}
	slices.SortFunc(out, func(a, b t2Entry) int { return cmp.Compare(a.s, b.s) })
	return out
}

// errVector turns positions-from-the-end / values into an error vector of length w.
func errVector(w int, pv ...int) []byte {
	e := make([]byte, w)
	for i := 0; i+1 < len(pv); i += 2 {
		if pv[i] < w && pv[i+1] != 0 {
			e[w-1-pv[i]] ^= byte(pv[i+1])
		}
	}
	return e
}

// witnessFromError builds a concrete (valid, corrupted) string pair for an error
// vector with zero syndrome on a window of w symbols (payload symbols incl. checksum).
func witnessFromError(codec string, w int, e []byte) c03Witness {
	cs := 8
	prefix := "bitcoincash"
	if codec == "bech32" {
		cs = 6
		prefix = "a"
	}
	data := make([]byte, w-cs)
	for i := range data {
		data[i] = byte((i*7 + 3) % 32)
	}
	var valid string
	if codec == "cashaddr" {
		valid = prefix + ":" + refCashEncodeSymbols(prefix, data)
	} else {
		valid = refBech32Encode(prefix, data)
	}
	b := []byte(valid)
	start := len(valid) - w
	for i := 0; i < w; i++ {
		if e[i] != 0 {
			b[start+i] = b32Charset[byte(symbolOf(valid[start+i]))^e[i]]
		}
	}
	return c03Witness{Codec: codec, Valid: valid, Corrupted: string(b)}
}

// acceptedDifferences probes the decoder with strings whose remainder differs from a
// valid string's remainder by d (the last 8 / 6 symbols enter the remainder without
// feedback, so XOR-ing d into the checksum symbols changes the remainder by exactly d)
// and returns every non-zero d that is accepted.  Candidates: all d of bit weight <= 2
// (quick) / <= 3 (thorough), the bech32m constant difference, and in the thorough tier
// every one of the 2^30 bech32 differences.
func acceptedDifferences(ev *Ev, codec string) []uint64 {
	nbits, cs := 40, 8
	prefix := "bitcoincash"
	data := make([]byte, 34)
	if codec == "bech32" {
		nbits, cs, prefix = 30, 6, "a"
		data = nil
	}
	for i := range data {
		data[i] = byte((i*7 + 3) % 32)
	}
	var valid string
	if codec == "cashaddr" {
		valid = prefix + ":" + refCashEncodeSymbols(prefix, data)
	} else {
		valid = refBech32Encode(prefix, data)
	}
	if !c03ImplAccepts(codec, valid) {
		return nil
	}
	base := []byte(valid)
	start := len(base) - cs
	sym := make([]int, cs)
	for j := 0; j < cs; j++ {
		sym[j] = symbolOf(base[start+j])
	}
	try := func(buf []byte, d uint64) bool {
		for j := 0; j < cs; j++ { // group j counted from the end
			v := int(d >> uint(5*j) & 31)
			buf[start+cs-1-j] = b32Charset[sym[cs-1-j]^v]
		}
		return c03ImplAccepts(codec, string(buf))
	}
	var out []uint64
	var mu sync.Mutex
	var probes atomic.Int64
	if codec == "bech32" && thorough() {
		parallelFor(1<<10, 16, func(hi int) {
			buf := append([]byte{}, base...)
			for lo := 0; lo < 1<<20; lo++ {
				d := uint64(hi)<<20 | uint64(lo)
				if d != 0 && try(buf, d) {
					mu.Lock()
					out = append(out, d)
					mu.Unlock()
				}
			}
			probes.Add(1 << 20)
		})
		ev.Exhaustive("bech32: every one of the 2^30 possible remainder values offered to the decoder (complete acceptance set)", 1<<30)
	} else {
		var cands []uint64
		maxBits := pick(2, 3)
		var rec func(from int, cur uint64, left int)
		rec = func(from int, cur uint64, left int) {
			if cur != 0 {
				cands = append(cands, cur)
			}
			if left == 0 {
				return
			}
			for b := from; b < nbits; b++ {
				rec(b+1, cur|1<<uint(b), left-1)
			}
		}
		rec(0, 0, maxBits)
		if codec == "bech32" {
			cands = append(cands, 1^0x2bc830a3)
		}
		for m := uint(1); m < uint(nbits); m++ { // low / high masks (a verifier comparing only part of the remainder)
			cands = append(cands, 1<<m-1, (1<<uint(nbits)-1)&^(1<<m-1))
		}
		buf := append([]byte{}, base...)
		for _, d := range cands {
			if try(buf, d) {
				out = append(out, d)
			}
		}
		probes.Add(int64(len(cands)))
	}
	ev.Bulk("C03:acceptance-probes-"+codec, probes.Load(), probes.Load())
	if len(out) > 0 {
		ev.Note("%s decoder accepts %d remainder(s) other than the specified one, e.g. difference %#x", codec, len(out), out[0])
		if len(out) > 8 {
			out = out[:8]
		}
	}
	return out
}

// addressAcceptanceProbe does for DecodeAddress (explicit prefix) what acceptedDifferences does for the raw
// decoder: for every known prefix p1 it offers the strings whose remainder under p1 differs from a valid
// address's by d, for d = every single bit and d = the constant by which the remainder under another
// known prefix p2 differs (a decoder that also tries another prefix accepts exactly those).  For each
// accepted d it searches the 42-symbol window for an error pattern of weight <= 5 with that syndrome and
// reports the resulting pair of strings.
// boundarySingles: for every known prefix and every standard hash size, every other symbol at the first three
// and the last ten payload positions (where fixed-size buffers and precomputed states begin and end).
func boundarySingles(ev *Ev) {
	seen := map[string]bool{}
	var n int64
	for _, net := range nets {
		for _, p := range []string{net.Params.CashAddressPrefix, net.Params.SlpAddressPrefix} {
			if p == "" || seen[p] {
				continue
			}
			seen[p] = true
			for _, size := range []int{20, 24, 28, 32, 40, 48, 56, 64} {
				hash := make([]byte, size)
				for i := range hash {
					hash[i] = byte(i*13 + size)
				}
				body := refCashEncode(p, 0, hash)
				valid := p + ":" + body
				// a decoder that ignores the last one or two symbols (a buffer that is a symbol short): strings whose
				// checksum relation holds for the TRUNCATED sequence are built by linear algebra on the remainder
				// function and offered; if one is accepted, it and its copy with another last symbol are both accepted
				syms := make([]byte, len(body))
				for i := range syms {
					syms[i] = byte(symbolOf(body[i]))
				}
				for t := 1; t <= 2; t++ {
					if y, ok := solveTruncated(p, syms, t); ok {
						b := []byte(p + ":")
						for _, v := range y {
							b = append(b, b32Charset[v])
						}
						a := string(b)
						b[len(b)-1] = b32Charset[(y[len(y)-1]+1)%32]
						n += 2
						if a != valid && (c03ImplAccepts("cashaddr", a) || c03AddrAccepts(p, a)) {
							ev.Note("decoder accepts %q, whose checksum only holds when the last %d symbol(s) are ignored", a, t)
							kC03Witness.One(ev, c03Witness{Codec: "cashaddr", Valid: a, Corrupted: string(b)})
							kC03Witness.One(ev, c03Witness{Codec: "cashaddr-address", Valid: a, Corrupted: string(b)})
							return
						}
					}
				}
				if !c03ImplAccepts("cashaddr", valid) {
					kC03Witness.One(ev, c03Witness{Codec: "cashaddr", Valid: valid, Corrupted: valid})
					ev.Note("valid %d-bit address under prefix %q is rejected", size*8, p)
					continue
				}
				var positions []int
				for i := 0; i < 3; i++ {
					positions = append(positions, i)
				}
				for i := len(body) - 10; i < len(body); i++ {
					positions = append(positions, i)
				}
				for _, pos := range positions {
					for _, ch := range []byte(b32Charset) {
						if ch == body[pos] {
							continue
						}
						b := []byte(valid)
						b[len(p)+1+pos] = ch
						n++
						if c03ImplAccepts("cashaddr", string(b)) || c03AddrAccepts(p, string(b)) {
							kC03Witness.One(ev, c03Witness{Codec: "cashaddr", Valid: valid, Corrupted: string(b)})
							kC03Witness.One(ev, c03Witness{Codec: "cashaddr-address", Valid: valid, Corrupted: string(b)})
							return
						}
					}
				}
			}
		}
	}
	ev.Bulk("C03:boundary-singles-every-prefix-and-size", n, n)
}

// solveTruncated returns the symbols of syms with the eight symbols in front of the last t replaced so that the
// remainder of prefix || 0 || (all but the last t symbols) is zero.  The remainder is affine in the symbols, so
// the 40 bits of those eight symbols are found by Gaussian elimination over GF(2).
func solveTruncated(prefix string, syms []byte, t int) ([]byte, bool) {
	w := len(syms) - t
	if w < 9 {
		return nil, false
	}
	y := append([]byte{}, syms...)
	base := implCashRemainder(prefix, y[:w])
	var cols [40]uint64
	for bit := 0; bit < 40; bit++ {
		pos, b := w-8+bit/5, uint(bit%5)
		y[pos] ^= 1 << b
		cols[bit] = implCashRemainder(prefix, y[:w]) ^ base
		y[pos] ^= 1 << b
	}
	// solve sum(x_bit * cols[bit]) == base: pivot[k] holds a vector whose highest set bit is k
	var pivV, pivC [40]uint64
	var have [40]bool
	reduce := func(v, c uint64) (uint64, uint64) {
		for k := 39; k >= 0; k-- {
			if v>>uint(k)&1 == 1 && have[k] {
				v ^= pivV[k]
				c ^= pivC[k]
			}
		}
		return v, c
	}
	for bit := 0; bit < 40; bit++ {
		v, c := reduce(cols[bit], 1<<uint(bit))
		if v != 0 {
			k := 63 - bits.LeadingZeros64(v)
			pivV[k], pivC[k], have[k] = v, c, true
		}
	}
	target, comb := reduce(base, 0)
	if target != 0 {
		return nil, false
	}
	for bit := 0; bit < 40; bit++ {
		if comb>>uint(bit)&1 == 1 {
			y[w-8+bit/5] ^= 1 << uint(bit%5)
		}
	}
	if implCashRemainder(prefix, y[:w]) != 0 {
		return nil, false
	}
	return y, true
}

// solveAffine finds x (n <= 40 bits) with F(x) == 0 for a function F that is affine over GF(2).
func solveAffine(n int, F func(x uint64) uint64) (uint64, bool) {
	base := F(0)
	var pivV, pivC [64]uint64
	var have [64]bool
	reduce := func(v, c uint64) (uint64, uint64) {
		for k := 63; k >= 0; k-- {
			if v>>uint(k)&1 == 1 && have[k] {
				v ^= pivV[k]
				c ^= pivC[k]
			}
		}
		return v, c
	}
	for bit := 0; bit < n; bit++ {
		v, c := reduce(F(1<<uint(bit))^base, 1<<uint(bit))
		if v != 0 {
			k := 63 - bits.LeadingZeros64(v)
			pivV[k], pivC[k], have[k] = v, c, true
		}
	}
	target, x := reduce(base, 0)
	if target != 0 || F(x) != 0 {
		return 0, false
	}
	return x, true
}

// selfChecksumProbe: valid strings whose data part contains, somewhere in the middle, the very characters of its
// own checksum (about one random string in 2^30 / 2^40 does; here they are constructed: the checksum is affine in
// the data, so "data[pos..] == checksum(data)" is a linear system).  A decoder that looks for the expected checksum
// instead of comparing it in place accepts such a string whatever its last characters are.  Every substitution of
// one checksum character, and some of two to four, must be rejected.
func selfChecksumProbe(ev *Ev) {
	var n, built int64
	try := func(codec, prefix string, syms []byte, ck int, enc func([]byte) string) bool {
		free, w := 1, ck
		for _, pos := range []int{free + w + 1, len(syms) - w - 3} {
			if pos < free+w || pos+w > len(syms) {
				continue
			}
			val := func(x uint64) []byte {
				y := append([]byte{}, syms...)
				for b := 0; b < 5*w; b++ {
					if x>>uint(b)&1 == 1 {
						y[free+b/5] ^= 1 << uint(b%5)
					}
				}
				return y
			}
			x, ok := solveAffine(5*w, func(x uint64) uint64 {
				y := val(x)
				full := enc(y)
				tail := full[len(full)-w:]
				var d uint64
				for i := 0; i < w; i++ {
					d = d<<5 | uint64(symbolOf(tail[i])^int(y[pos+i]))
				}
				return d
			})
			if !ok {
				continue
			}
			valid := enc(val(x))
			if !strings.Contains(valid[:len(valid)-w], valid[len(valid)-w:]) {
				ev.Note("self-checksum construction failed for %s %q (harness)", codec, prefix)
				continue
			}
			built++
			accepts := func(s string) bool {
				return c03ImplAccepts(codec, s) || (codec == "cashaddr" && c03AddrAccepts(prefix, s))
			}
			if !accepts(valid) {
				kC03Witness.One(ev, c03Witness{Codec: codec, Valid: valid, Corrupted: valid})
				ev.Note("valid string %q (its data contains its own checksum) is rejected", valid)
				return false
			}
			var cands []string
			for i := len(valid) - w; i < len(valid); i++ {
				for _, ch := range []byte(b32Charset) {
					if ch != valid[i] {
						b := []byte(valid)
						b[i] = ch
						cands = append(cands, string(b))
					}
				}
			}
			for k := 2; k <= 4; k++ { // k neighbouring checksum characters replaced
				for i := len(valid) - w; i+k <= len(valid); i++ {
					b := []byte(valid)
					for j := 0; j < k; j++ {
						b[i+j] = b32Charset[(symbolOf(valid[i+j])+1+j)%32]
					}
					cands = append(cands, string(b), asciiUpper(string(b)))
				}
			}
			for _, c := range cands {
				n++
				if accepts(c) {
					ev.Note("decoder accepts %q: its data contains the checksum it should end with, its end is something else", c)
					kC03Witness.One(ev, c03Witness{Codec: codec, Valid: valid, Corrupted: asciiLower(c)})
					if codec == "cashaddr" {
						kC03Witness.One(ev, c03Witness{Codec: "cashaddr-address", Valid: valid, Corrupted: asciiLower(c)})
					}
					return false
				}
			}
		}
		return true
	}
	for _, hrp := range []string{"a", "bc", "tb", "bitcoincash", "x1y"} {
		for _, l := range []int{16, 20, 33, 52} {
			syms := make([]byte, l)
			for i := range syms {
				syms[i] = byte((i*7 + l + len(hrp)) % 32)
			}
			if !try("bech32", hrp, syms, 6, func(y []byte) string { return refBech32Encode(hrp, y) }) {
				return
			}
		}
	}
	seen := map[string]bool{}
	for _, net := range nets {
		for _, p := range []string{net.Params.CashAddressPrefix, net.Params.SlpAddressPrefix} {
			if p == "" || seen[p] {
				continue
			}
			seen[p] = true
			for _, size := range []int{20, 32} {
				hash := make([]byte, size)
				for i := range hash {
					hash[i] = byte(i*29 + size)
				}
				body := refCashEncode(p, 0, hash)
				syms := make([]byte, len(body)-8)
				for i := range syms {
					syms[i] = byte(symbolOf(body[i]))
				}
				p := p
				if !try("cashaddr", p, syms, 8, func(y []byte) string { return p + ":" + refCashEncodeSymbols(p, y) }) {
					return
				}
			}
		}
	}
	ev.Note("self-checksum probe: %d strings built whose data contains its own checksum", built)
	ev.Bulk("C03:checksum-characters-also-inside-the-data", n, n)
}

func addressAcceptanceProbe(ev *Ev) {
	var prefixes []string
	seen := map[string]bool{}
	for _, n := range nets {
		for _, p := range []string{n.Params.CashAddressPrefix, n.Params.SlpAddressPrefix} {
			if p != "" && !seen[p] {
				seen[p] = true
				prefixes = append(prefixes, p)
			}
		}
	}
	hash := make([]byte, 20)
	for i := range hash {
		hash[i] = byte(i*11 + 5)
	}
	var probes int64
	for _, p1 := range prefixes {
		body := refCashEncode(p1, 0, hash)
		valid := p1 + ":" + body
		if !c03AddrAccepts(p1, valid) {
			continue
		}
		w := len(body)
		syms := make([]byte, w)
		for i := range syms {
			syms[i] = byte(symbolOf(body[i]))
		}
		cands := []uint64{}
		for b := 0; b < 40; b++ {
			cands = append(cands, 1<<uint(b))
		}
		for _, p2 := range prefixes {
			if p2 != p1 {
				cands = append(cands, implCashRemainder(p2, syms)^implCashRemainder(p1, syms))
			}
		}
		// a constant folded into the running remainder k symbols too early (a precomputed prefix state that already
		// contains the final "xor 1", a fast path that resumes from a cached state): the remainder then differs
		// by that constant pushed through k steps of the generator
		for _, delta := range []uint64{1, 2, 0x1f} {
			c := delta
			for k := 0; k <= w+len(p1)+1; k++ {
				if k > 0 {
					c0 := c >> 35
					c = (c & 0x07ffffffff) << 5
					for i := 0; i < 5; i++ {
						if (c0>>uint(i))&1 == 1 {
							c ^= cashGen[i]
						}
					}
				}
				cands = append(cands, c)
			}
		}
		for _, d := range cands {
			if d == 0 {
				continue
			}
			b := []byte(valid)
			for j := 0; j < 8; j++ {
				v := byte(d >> uint(5*j) & 31)
				b[len(b)-1-j] = b32Charset[syms[w-1-j]^v]
			}
			probes++
			if !c03AddrAccepts(p1, string(b)) {
				continue
			}
			ev.Note("DecodeAddress with prefix %q accepts a remainder that differs by %#x from the valid one", p1, d)
			// search the window for a pattern of weight <= 5 with syndrome d
			tab := syndromeTable("cashaddr", w)
			t2 := buildT2(tab)
			find := func(x uint64) int {
				i := sort.Search(len(t2), func(i int) bool { return t2[i].s >= x })
				if i < len(t2) && t2[i].s == x {
					return i
				}
				return -1
			}
			report := func(pv ...int) {
				e := errVector(w, pv...)
				cb := []byte(valid)
				for i := 0; i < w; i++ {
					if e[i] != 0 {
						cb[len(p1)+1+i] = b32Charset[syms[i]^e[i]]
					}
				}
				kC03Witness.One(ev, c03Witness{Codec: "cashaddr-address", Valid: valid, Corrupted: string(cb)})
			}
			if i := find(d); i >= 0 {
				a1, b1, a2, b2 := unpackPat(t2[i].p)
				report(a1, b1, a2, b2)
				return
			}
			for i := range t2 {
				if j := find(t2[i].s ^ d); j >= 0 {
					a1, b1, a2, b2 := unpackPat(t2[i].p)
					c1, d1, c2, d2 := unpackPat(t2[j].p)
					report(a1, b1, a2, b2, c1, d1, c2, d2)
					return
				}
			}
			for j1 := 0; j1 < w; j1++ {
				for j2 := j1 + 1; j2 < w; j2++ {
					for j3 := j2 + 1; j3 < w; j3++ {
						for v1 := 1; v1 < 32; v1++ {
							for v2 := 1; v2 < 32; v2++ {
								s12 := tab[j1][v1] ^ tab[j2][v2] ^ d
								for v3 := 1; v3 < 32; v3++ {
									if i := find(s12 ^ tab[j3][v3]); i >= 0 {
										a1, b1, a2, b2 := unpackPat(t2[i].p)
										report(j1, v1, j2, v2, j3, v3, a1, b1, a2, b2)
										return
									}
								}
							}
						}
					}
				}
			}
		}
	}
	ev.Bulk("C03:acceptance-probes-DecodeAddress", probes, probes)
}

// exhaustiveDistance checks that no error pattern of weight <= maxW (4 or 5) on a
// window of w symbols has syndrome zero.  w5 is the window for the weight-5 pass
// (<= w).  Returns the number of patterns covered.
func exhaustiveDistance(ev *Ev, codec string, w int, maxW int, w5 int) {
	// remainder differences the decoder accepts besides 0 (a verifier that compares
	// only part of the remainder, or accepts a second constant, shows up here even
	// though the remainder function itself is unchanged)
	extra := acceptedDifferences(ev, codec)
	// bech32 in upper case: a decoder that computes the checksum over the prefix AS WRITTEN (instead of its
	// lower-case form) works on another coset for upper-case strings; the difference depends on prefix and
	// length, so it is computed for exactly the window used below and offered to the decoder
	upperOnly := map[uint64]bool{}
	if codec == "bech32" {
		data := make([]byte, w-6)
		for i := range data {
			data[i] = byte((i*7 + 3) % 32)
		}
		valid := refBech32Encode("a", data)
		vals := append([]byte{}, data...)
		vals = append(vals, refBech32Checksum("a", data)...)
		d := uint64(refBech32Polymod(append(refBech32HrpExpand("A"), vals...)) ^ 1)
		up := []byte(asciiUpper(valid))
		for j := 0; j < 6; j++ {
			v := int(d >> uint(5*j) & 31)
			pos := len(up) - 1 - j
			up[pos] = asciiUpper(string(b32Charset[symbolOf(up[pos])^v]))[0]
		}
		if d != 0 && c03ImplAccepts(codec, string(up)) && !c03RefAccepts(codec, string(up)) {
			extra = append(extra, d)
			upperOnly[d] = true
			ev.Note("bech32 decoder accepts an upper-case string whose checksum is valid for the prefix as written (%q), difference %#x", string(up), d)
		}
	}
	witnessFor := func(d uint64, e []byte) c03Witness {
		wit := witnessFromError(codec, w, e)
		if upperOnly[d] {
			wit.Valid, wit.Corrupted = asciiUpper(wit.Valid), asciiUpper(wit.Corrupted)
		}
		return wit
	}
	targets := append([]uint64{0}, extra...)
	tab := syndromeTable(codec, w)
	// sanity: table entries are GF(2)-linear in the value bits (cheap, complete)
	for j := 0; j < w; j++ {
		for v := 1; v < 32; v++ {
			var x uint64
			for b := 0; b < 5; b++ {
				if v>>uint(b)&1 == 1 {
					x ^= tab[j][1<<uint(b)]
				}
			}
			if x != tab[j][v] {
				kC03Lin.One(ev, c03Lin{Codec: codec, Prefix: "a", X: make([]byte, w), Y: make([]byte, w),
					E1: errVector(w, j, v&-v), E2: errVector(w, j, v&^(v&-v))})
				ev.Note("%s: syndrome table is not linear in the symbol value at position %d", codec, j)
				return
			}
		}
	}
	t2 := buildT2(tab)
	var covered int64 = int64(len(t2))
	// weight <= 2: zero syndrome?  weight <= 4: duplicates?
	for i := range t2 {
		if t2[i].s == 0 {
			j1, v1, j2, v2 := unpackPat(t2[i].p)
			kC03Witness.One(ev, witnessFromError(codec, w, errVector(w, j1, v1, j2, v2)))
			ev.Note("%s: undetected error pattern of weight <=2", codec)
			return
		}
		if i > 0 && t2[i].s == t2[i-1].s {
			a1, b1, a2, b2 := unpackPat(t2[i].p)
			c1, d1, c2, d2 := unpackPat(t2[i-1].p)
			e := errVector(w, a1, b1, a2, b2, c1, d1, c2, d2)
			nz := 0
			for _, x := range e {
				if x != 0 {
					nz++
				}
			}
			if nz > 0 {
				kC03Witness.One(ev, witnessFromError(codec, w, e))
				ev.Note("%s: undetected error pattern of weight %d (two weight<=2 patterns with equal syndrome)", codec, nz)
				return
			}
		}
	}
	lookupT2 := func(x uint64) int {
		i := sort.Search(len(t2), func(i int) bool { return t2[i].s >= x })
		if i < len(t2) && t2[i].s == x {
			return i
		}
		return -1
	}
	cs := 8
	if codec == "bech32" {
		cs = 6
	}
	for _, d := range extra {
		// the difference itself, applied to the checksum symbols
		var pv []int
		for j := 0; j < cs; j++ {
			if v := int(d >> uint(5*j) & 31); v != 0 {
				pv = append(pv, j, v)
			}
		}
		if len(pv)/2 <= maxW {
			kC03Witness.One(ev, witnessFor(d, errVector(w, pv...)))
			ev.Note("%s: decoder accepts a remainder that differs by %#x from the valid one (%d checksum symbols)", codec, d, len(pv)/2)
			return
		}
		if i := lookupT2(d); i >= 0 {
			a1, b1, a2, b2 := unpackPat(t2[i].p)
			kC03Witness.One(ev, witnessFor(d, errVector(w, a1, b1, a2, b2)))
			ev.Note("%s: accepted remainder difference %#x is the syndrome of a pattern of weight <=2", codec, d)
			return
		}
		for i := range t2 {
			if j := lookupT2(t2[i].s ^ d); j >= 0 {
				a1, b1, a2, b2 := unpackPat(t2[i].p)
				c1, d1, c2, d2 := unpackPat(t2[j].p)
				kC03Witness.One(ev, witnessFor(d, errVector(w, a1, b1, a2, b2, c1, d1, c2, d2)))
				ev.Note("%s: accepted remainder difference %#x is the syndrome of a pattern of weight <=4", codec, d)
				return
			}
		}
	}
	nw := int64(w)
	pairs := nw * (nw - 1) / 2
	w4 := nw*31 + pairs*961 // weight-1 and weight-2 entries
	// all patterns of weight <=4 = pairs of T2 entries: count them as covered
	covered = w4 + nw*(nw-1)*(nw-2)/6*29791 + nw*(nw-1)*(nw-2)*(nw-3)/24*923521
	ev.Exhaustive(fmt.Sprintf("%s: all substitution patterns of weight <=4 on the %d-symbol window (syndrome table of weight<=2 patterns has no zero and no duplicate)", codec, w), covered)
	ev.Bulk(fmt.Sprintf("C03:exh-%s-weight<=2-syndrome-table-window-%d", codec, w), int64(len(t2)), int64(len(t2)))
	ev.Sample("syndrome", map[string]any{"codec": codec, "window": w, "position_from_end": 0, "value": 1,
		"syndrome": fmt.Sprintf("%#x", tab[0][1])})
	if maxW < 5 {
		return
	}
	// weight 5 = a weight-3 pattern whose syndrome equals a weight<=2 syndrome
	// (pre-filter bitset + binary search)
	const fbits = 31
	filter := make([]uint64, 1<<(fbits-6))
	mix := func(s uint64) uint64 { return (s ^ s>>fbits) & (1<<fbits - 1) }
	for i := range t2 {
		h := mix(t2[i].s)
		filter[h>>6] |= 1 << (h & 63)
	}
	lookup := func(s uint64) int {
		i := sort.Search(len(t2), func(i int) bool { return t2[i].s >= s })
		if i < len(t2) && t2[i].s == s {
			return i
		}
		return -1
	}
	var found atomic.Bool
	var mu sync.Mutex
	var count atomic.Int64
	// restrict T2 matches to the w5 window: entries outside are still valid patterns
	// on the big window, so a hit there is also an undetected pattern - keep all.
	type job struct{ j1, j2 int }
	var jobs []job
	for j1 := 0; j1 < w5; j1++ {
		for j2 := j1 + 1; j2 < w5; j2++ {
			jobs = append(jobs, job{j1, j2})
		}
	}
	parallelFor(len(jobs), 16, func(ji int) {
		if found.Load() {
			return
		}
		j1, j2 := jobs[ji].j1, jobs[ji].j2
		var n int64
		for j3 := j2 + 1; j3 < w5; j3++ {
			for v1 := 1; v1 < 32; v1++ {
				s1 := tab[j1][v1]
				for v2 := 1; v2 < 32; v2++ {
					s12 := s1 ^ tab[j2][v2]
					row := &tab[j3]
					for v3 := 1; v3 < 32; v3++ {
						s0 := s12 ^ row[v3]
						n++
						for _, d := range targets {
							s := s0 ^ d
							if s == 0 {
								mu.Lock()
								if !found.Swap(true) {
									kC03Witness.One(ev, witnessFromError(codec, w, errVector(w, j1, v1, j2, v2, j3, v3)))
									ev.Note("%s: undetected error pattern of weight 3", codec)
								}
								mu.Unlock()
								return
							}
							h := mix(s)
							if filter[h>>6]&(1<<(h&63)) == 0 {
								continue
							}
							if i := lookup(s); i >= 0 {
								a1, b1, a2, b2 := unpackPat(t2[i].p)
								e := errVector(w, j1, v1, j2, v2, j3, v3, a1, b1, a2, b2)
								nz := 0
								for _, x := range e {
									nz += bits.OnesCount8(x) & 0xff
								}
								if nz == 0 {
									continue
								}
								mu.Lock()
								if !found.Swap(true) {
									kC03Witness.One(ev, witnessFromError(codec, w, e))
									ev.Note("%s: undetected error pattern of weight <=5", codec)
								}
								mu.Unlock()
								return
							}
						}
					}
				}
			}
		}
		count.Add(n)
	})
	if found.Load() {
		return
	}
	n5 := int64(w5)
	cov5 := n5 * (n5 - 1) * (n5 - 2) * (n5 - 3) * (n5 - 4) / 120 * 28629151
	ev.Exhaustive(fmt.Sprintf("%s: all substitution patterns of weight 5 on the %d-symbol window (%d weight-3 syndromes streamed against the weight<=2 table)",
		codec, w5, count.Load()), cov5)
	ev.Bulk(fmt.Sprintf("C03:exh-%s-w5-window-%d(weight-3 syndromes streamed)", codec, w5), count.Load(), count.Load())
}

// ---- kind: case flips of strings with few letters ---------------------------------------------
// Writing a letter of the payload in the other case is a substitution like any other.  On an ordinary
// address there are some 35 letters, so changing <= 5 of them always leaves the payload itself in mixed
// case; a decoder that judges the case of prefix and payload separately is only exposed by a valid string
// with at most five (CashAddr) / four (bech32) letters in its payload.  Such strings are constructed:
// all free symbols are digit symbols and two of them are ground until the checksum has few letters.

type c03Case struct {
	Codec  string `json:"codec"`
	Prefix string `json:"prefix"`
	Digits []int  `json:"digits"` // indices into the nine digit symbols, one per free payload symbol
}

var digitSyms = []byte{5, 7, 10, 15, 17, 20, 21, 26, 30} // 9 8 2 0 3 5 4 6 7

func evalC03Case(c c03Case, o *Obs) error {
	max, nfree := 5, 32
	if c.Codec == "bech32" {
		max, nfree = 4, len(c.Digits)
	} else if c.Codec != "cashaddr" {
		return hbug("codec")
	}
	if len(c.Digits) < nfree || nfree < 2 || len(c.Prefix) == 0 || len(c.Prefix) > 20 || asciiLower(c.Prefix) != c.Prefix {
		return hbug("bad case-flip case")
	}
	var valid string
	var letters []int
	build := func(g1, g2 int) {
		var syms []byte
		if c.Codec == "cashaddr" {
			syms = []byte{0, byte((c.Digits[0] % 4))} // version byte 0 (P2PKH, 160 bits): two forced letters
		}
		for i := 0; i < nfree; i++ {
			syms = append(syms, digitSyms[((c.Digits[i]%9)+9)%9])
		}
		syms[len(syms)-2], syms[len(syms)-3] = digitSyms[g1], digitSyms[g2]
		if c.Codec == "cashaddr" {
			syms[len(syms)-1] = 20 // '5': three data bits and two zero padding bits
			valid = c.Prefix + ":" + refCashEncodeSymbols(c.Prefix, syms)
		} else {
			valid = refBech32Encode(c.Prefix, syms)
		}
		letters = letters[:0]
		for i := len(c.Prefix) + 1; i < len(valid); i++ {
			if valid[i] >= 'a' && valid[i] <= 'z' {
				letters = append(letters, i)
			}
		}
	}
	found := false
search:
	for g1 := 0; g1 < 9; g1++ {
		for g2 := 0; g2 < 9; g2++ {
			build(g1, g2)
			if len(letters) >= 1 && len(letters) <= max {
				found = true
				break search
			}
		}
	}
	if !found {
		o.Class("C03:few-letters-none-found")
		return nil
	}
	if !c03ImplAccepts(c.Codec, valid) || !c03RefAccepts(c.Codec, valid) {
		return fmt.Errorf("constructed valid %s string %q is rejected", c.Codec, valid)
	}
	o.NT()
	o.Class("C03:%s-few-letters=%d", c.Codec, len(letters))
	for mask := 1; mask < 1<<len(letters); mask++ {
		b := []byte(valid)
		for k, pos := range letters {
			if mask>>k&1 == 1 {
				b[pos] -= 32
			}
		}
		s := string(b)
		if c03ImplAccepts(c.Codec, s) || (c.Codec == "cashaddr" && c03AddrAccepts(c.Prefix, s)) {
			return fmt.Errorf("%s decoder accepts %q, which differs from valid %q in %d payload characters (letters written in the other case)",
				c.Codec, s, valid, bitsSet(mask))
		}
	}
	return nil
}

func bitsSet(m int) (n int) {
	for ; m != 0; m &= m - 1 {
		n++
	}
	return
}

var kC03Case = register(&Kind[c03Case]{Prop: "C03", Name: "caseflip", Eval: evalC03Case,
	Gen: func(t *rapid.T) c03Case {
		c := c03Case{Codec: rapid.SampledFrom([]string{"cashaddr", "bech32"}).Draw(t, "codec")}
		n := 32
		if c.Codec == "cashaddr" {
			c.Prefix = genKnownPrefix(t)
		} else {
			c.Prefix = rapid.StringMatching("[a-z][a-z0-9]{0,5}").Draw(t, "hrp")
			n = rapid.IntRange(3, 60).Draw(t, "n")
		}
		for i := 0; i < n; i++ {
			c.Digits = append(c.Digits, rapid.IntRange(0, 8).Draw(t, "d"))
		}
		return c
	}})

func TestC03(t *testing.T) {
	propTest(t, "C03", func(ev *Ev) {
		mode := "hook mode: enumeration runs on the implementation's own remainder functions (build tag verif)"
		if !hookMode {
			mode = "BLACK-BOX mode (hook files absent): enumeration runs on the reference arithmetic; agreement of the " +
				"decoders with it is checked by the substitution cases only"
		}
		ev.Rule("Step 1: rapid-sampled affine linearity of the checksum remainder over GF(2) (independent of codeword and "+
			"prefix). Step 2: exhaustive meet-in-the-middle in syndrome space: table of all weight<=2 syndromes on the 112-symbol "+
			"(CashAddr) / 88-symbol (bech32) window must contain no zero and no duplicate (=> every pattern of weight <=4 is "+
			"detected), and every weight-3 syndrome is looked up in it (=> weight 5; quick: 61-symbol window, thorough: "+
			"112-symbol window). Any hit is converted to a concrete pair of strings and confirmed against the decoder before "+
			"it is reported. Step 3: rapid-generated valid strings of every standard length/prefix with 1..5 (1..4) substituted "+
			"payload characters (in/out of alphabet) must be rejected; for a tenth of them every single-position substitution by "+
			"every byte value is tried and acceptance compared with the reference. Non-trivial = at least one symbol really "+
			"changed. "+mode,
			"completeness of step 2 rests on the affine-linearity law, which is itself only sampled (step 1) plus checked "+
				"completely for single-symbol errors on the zero codeword",
			"a substitution by the other-case rendering of the same bech32 symbol is not counted as a corruption (an "+
				"all-upper-case rendering of a valid string is valid by BIP173)")
		refSelfCodecs(ev)
		if len(ev.harnessErrors) > 0 {
			return
		}
		ev.Note(mode)
		t0 := time.Now()
		kC03Lin.Run(t, ev, perShard(pick(4000, 400000)))
		t1 := time.Now()
		kC03Sub.Run(t, ev, perShard(pick(3000, 150000)))
		kC03Conc.Run(t, ev, perShard(pick(300, 20000)))
		kC03Case.Run(t, ev, perShard(pick(400, 40000)))
		t2 := time.Now()
		if len(ev.violations) > 0 || shard != 0 {
			return // the enumeration is not seed-dependent: shard 0 runs it on all cores
		}
		addressAcceptanceProbe(ev)
		if shard == 0 {
			boundarySingles(ev)
			selfChecksumProbe(ev)
		}
		if len(ev.violations) > 0 {
			return
		}
		exhaustiveDistance(ev, "bech32", 88, 4, 0)
		t3 := time.Now()
		exhaustiveDistance(ev, "cashaddr", 112, 5, pick(61, 112))
		ev.Note("phase times: linearity %.1fs, substitutions %.1fs, bech32 enumeration %.1fs, cashaddr enumeration %.1fs",
			t1.Sub(t0).Seconds(), t2.Sub(t1).Seconds(), t3.Sub(t2).Seconds(), time.Since(t3).Seconds())
		ev.requireClasses("C03:linearity-cashaddr", "C03:linearity-bech32", "C03:cashaddr-all-singles", "C03:bech32-all-singles",
			"C03:cashaddr-weight-5", "C03:bech32-weight-4", "C03:cashaddr-valid-accepted", "C03:bech32-valid-accepted", "C03:cashaddr-valid-is-an-address")
	})
}
