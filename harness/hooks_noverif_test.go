//go:build !verif

package harness

// Black-box fallback: without the hook files the enumeration of C03 runs on the
// reference arithmetic (see DESIGN.md, C03).
const hookMode = false

func implCashRemainder(prefix string, syms []byte) uint64 {
	return refCashPolymod(append(refCashPrefixExpand(prefix), syms...))
}

func implBech32Remainder(hrp string, syms []byte) uint64 {
	return uint64(refBech32Polymod(append(refBech32HrpExpand(hrp), syms...)))
}
