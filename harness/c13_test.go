package harness

// C13 Golomb-coded set filters never miss a member and all query strategies agree.
// Also holds the reference SipHash-2-4 / GCS model used by C14.

import (
	"bytes"
	"encoding/binary"
	"fmt"
	"math/bits"
	"sort"
	"testing"

	"github.com/aead/siphash"
	"github.com/gcash/bchutil/gcs"
	"pgregory.net/rapid"
)

// ---- reference SipHash-2-4 (from the paper) -------------------------------------------

func refSipHash(key [16]byte, m []byte) uint64 {
	k0 := binary.LittleEndian.Uint64(key[:8])
	k1 := binary.LittleEndian.Uint64(key[8:])
	v0 := k0 ^ 0x736f6d6570736575
	v1 := k1 ^ 0x646f72616e646f6d
	v2 := k0 ^ 0x6c7967656e657261
	v3 := k1 ^ 0x7465646279746573
	round := func() {
		v0 += v1
		v1 = bits.RotateLeft64(v1, 13)
		v1 ^= v0
		v0 = bits.RotateLeft64(v0, 32)
		v2 += v3
		v3 = bits.RotateLeft64(v3, 16)
		v3 ^= v2
		v0 += v3
		v3 = bits.RotateLeft64(v3, 21)
		v3 ^= v0
		v2 += v1
		v1 = bits.RotateLeft64(v1, 17)
		v1 ^= v2
		v2 = bits.RotateLeft64(v2, 32)
	}
	n := len(m)
	for i := 0; i+8 <= n; i += 8 {
		mi := binary.LittleEndian.Uint64(m[i:])
		v3 ^= mi
		round()
		round()
		v0 ^= mi
	}
	var last uint64 = uint64(n&0xff) << 56
	tail := m[n&^7:]
	for i, b := range tail {
		last |= uint64(b) << (8 * uint(i))
	}
	v3 ^= last
	round()
	round()
	v0 ^= last
	v2 ^= 0xff
	round()
	round()
	round()
	round()
	return v0 ^ v1 ^ v2 ^ v3
}

func refReduce(v, np uint64) uint64 {
	hi, _ := bits.Mul64(v, np)
	return hi
}

// refGCSValues returns the sorted reduced values (with duplicates) of the data set.
func refGCSValues(key [16]byte, m uint64, data [][]byte) []uint64 {
	np := uint64(len(data)) * m
	vals := make([]uint64, len(data))
	for i, d := range data {
		vals[i] = refReduce(refSipHash(key, d), np)
	}
	sort.Slice(vals, func(i, j int) bool { return vals[i] < vals[j] })
	return vals
}

// refGCSEncode is the Golomb-Rice encoding of the sorted deltas, MSB first, zero padded.
func refGCSEncode(p uint8, vals []uint64) []byte {
	var out []byte
	nbits := 0
	put := func(b bool) {
		if nbits%8 == 0 {
			out = append(out, 0)
		}
		if b {
			out[len(out)-1] |= 0x80 >> uint(nbits%8)
		}
		nbits++
	}
	var last uint64
	for _, v := range vals {
		d := v - last
		last = v
		q := d >> p
		for i := uint64(0); i < q; i++ {
			put(true)
		}
		put(false)
		for i := int(p) - 1; i >= 0; i-- {
			put(d>>uint(i)&1 == 1)
		}
	}
	return out
}

func compactSize(n uint64) []byte {
	switch {
	case n < 0xfd:
		return []byte{byte(n)}
	case n <= 0xffff:
		return []byte{0xfd, byte(n), byte(n >> 8)}
	case n <= 0xffffffff:
		return []byte{0xfe, byte(n), byte(n >> 8), byte(n >> 16), byte(n >> 24)}
	}
	out := []byte{0xff}
	return binary.LittleEndian.AppendUint64(out, n)
}

func refSelfGCS(ev *Ev) {
	var key [16]byte
	for i := range key {
		key[i] = byte(i)
	}
	in := make([]byte, 15)
	for i := range in {
		in[i] = byte(i)
	}
	if got := refSipHash(key, in); got != 0xa129ca6149be45e5 {
		ev.HarnessError("refSipHash paper vector: %#x", got)
	}
	if got := refSipHash(key, nil); got != 0x726fdb47dd0e0e31 {
		ev.HarnessError("refSipHash empty-input vector: %#x", got)
	}
	// agreement with the (not under test) dependency on a deterministic sample
	buf := make([]byte, 0, 80)
	for i := 0; i < 300; i++ {
		buf = append(buf[:0], make([]byte, i%70)...)
		for j := range buf {
			buf[j] = byte(i*31 + j*7)
		}
		key[3] = byte(i)
		if refSipHash(key, buf) != siphash.Sum64(buf, &key) {
			ev.HarnessError("refSipHash disagrees with aead/siphash on length %d", len(buf))
			return
		}
	}
	// encoder example: P=2, deltas 5 (q=1,r=1) and 2 (q=0,r=2): bits 1 0 01 | 0 10 -> 1001 0100
	if got := refGCSEncode(2, []uint64{5, 7}); len(got) != 1 || got[0] != 0x94 {
		ev.HarnessError("refGCSEncode example = %x want 94", got)
	}
	if got := compactSize(0x1234); len(got) != 3 || got[0] != 0xfd || got[1] != 0x34 {
		ev.HarnessError("compactSize")
	}
}

// ---- data description ---------------------------------------------------------------

type gcsData struct {
	Key   HexBytes   `json:"key"` // 16 bytes
	P     uint8      `json:"p"`
	M     uint64     `json:"m"`
	N     int        `json:"n"`     // derived items: 8-byte (seed,i)
	Seed  uint32     `json:"seed"`  // item seed
	Dups  int        `json:"dups"`  // first Dups derived items are repeated once
	Extra []HexBytes `json:"extra"` // explicit items (lengths 0..40)
	// Outs: this many further members shaped like the outpoints of ONE transaction: a common 32-byte prefix
	// followed by a 4-byte index 0..Outs-1 (items that differ only behind a long common prefix)
	Outs int `json:"outs,omitempty"`
}

func outpointItem(seed uint32, i int) []byte {
	b := make([]byte, 36)
	for j := 0; j < 32; j += 4 {
		binary.LittleEndian.PutUint32(b[j:], seed*2654435761+uint32(j))
	}
	binary.LittleEndian.PutUint32(b[32:], uint32(i))
	return b
}

func derivedItem(seed uint32, i int) []byte {
	b := make([]byte, 8)
	binary.LittleEndian.PutUint32(b, seed)
	binary.LittleEndian.PutUint32(b[4:], uint32(i))
	return b
}

func (d gcsData) items() [][]byte {
	var out [][]byte
	for i := 0; i < d.N; i++ {
		out = append(out, derivedItem(d.Seed, i))
	}
	for i := 0; i < d.Dups && i < d.N; i++ {
		out = append(out, derivedItem(d.Seed, i))
	}
	for _, e := range d.Extra {
		out = append(out, e)
	}
	for i := 0; i < d.Outs; i++ {
		out = append(out, outpointItem(d.Seed, i))
	}
	return out
}

func (d gcsData) key() (k [16]byte) {
	copy(k[:], d.Key)
	return
}

func genGCSData(t *rapid.T, maxN int) gcsData {
	d := gcsData{Key: genBytesN(t, "key", 16), Seed: rapid.Uint32().Draw(t, "seed")}
	d.P = uint8(rapid.IntRange(0, 32).Draw(t, "p"))
	switch rapid.IntRange(0, 5).Draw(t, "ncls") {
	case 0:
		d.N = rapid.IntRange(0, 3).Draw(t, "n0")
	case 1:
		d.N = rapid.IntRange(maxN/2, maxN).Draw(t, "nbig")
	default:
		d.N = rapid.IntRange(0, 60).Draw(t, "n")
	}
	if d.N > 0 && rapid.Bool().Draw(t, "dups") {
		d.Dups = rapid.IntRange(1, 3).Draw(t, "ndups")
	}
	if rapid.IntRange(0, 3).Draw(t, "outs") == 0 {
		d.Outs = rapid.IntRange(1, 4).Draw(t, "nouts")
	}
	ne := rapid.IntRange(0, 3).Draw(t, "nextra")
	for i := 0; i < ne; i++ {
		d.Extra = append(d.Extra, genBytes(t, "extra", 0, 40))
	}
	total := uint64(d.N + d.Dups + ne + d.Outs)
	if total == 0 {
		total = 1
	}
	// M relative to 2^P, bounded so unary runs stay short (M/2^P <= 64) and N*M < 2^63
	switch rapid.IntRange(0, 5).Draw(t, "mcls") {
	case 0:
		d.M = 784931
		if d.P < 14 {
			d.P = 19
		}
	case 1:
		d.M = 1
		if rapid.IntRange(0, 3).Draw(t, "mzero") == 0 {
			d.M = 0
		}
		if rapid.Bool().Draw(t, "msmall") { // any small modulus factor, not only powers of two and the default
			d.M = uint64(rapid.IntRange(2, 5000).Draw(t, "msmallv"))
			if d.M > uint64(64)<<d.P {
				d.P = uint8(rapid.IntRange(7, 20).Draw(t, "psmall"))
			}
		}
	default:
		shift := rapid.IntRange(-1, 6).Draw(t, "mshift")
		if shift < 0 {
			d.M = (uint64(1) << d.P) / 2
		} else {
			d.M = uint64(1) << (uint(d.P) + uint(shift))
		}
		if rapid.Bool().Draw(t, "modd") && d.M > 2 {
			d.M -= uint64(rapid.IntRange(0, 1).Draw(t, "mdec"))
			d.M |= 1
		}
	}
	if d.M == 0 && rapid.IntRange(0, 1).Draw(t, "keepzero") == 0 {
		d.M = 1
	}
	for d.M > 1 && (d.M > (uint64(1)<<62)/total) {
		d.M >>= 1
	}
	return d
}

// ---- C13 kind: query -----------------------------------------------------------------

type gcsQuery struct {
	Member  []int      `json:"member"`   // indices into items()
	Foreign []int      `json:"foreign"`  // derived non-member items (seed+1, i)
	Raw     []HexBytes `json:"raw"`      // explicit byte strings
	RepeatF int        `json:"repeat_f"` // pad the query with this many further foreign items (size above N/2)
	// Outs: outpoint-shaped items by index (members if below the filter's Outs, else non-members); they come first
	Outs []int `json:"outs,omitempty"`
}

type c13Case struct {
	D  gcsData    `json:"filter"`
	Qs []gcsQuery `json:"queries"`
	// Hist: further calls on the same filter object in this order; op 0 Match(first item of the query),
	// 1 MatchAny, 2 ZipMatchAny, 3 HashMatchAny; Q indexes Qs, Top selects a member with a large value
	Hist []gcsCall `json:"history"`
}

type gcsCall struct {
	Op  int `json:"op"`
	Q   int `json:"q"`
	Top int `json:"top"` // >0: query the member with the Top-th largest reduced value instead
}

func (q gcsQuery) resolve(items [][]byte, seed uint32) [][]byte {
	var out [][]byte
	for _, i := range q.Outs {
		out = append(out, outpointItem(seed, i))
	}
	for _, m := range q.Member {
		if len(items) > 0 {
			out = append(out, items[((m%len(items))+len(items))%len(items)])
		}
	}
	for _, f := range q.Foreign {
		out = append(out, derivedItem(seed+1, f))
	}
	for _, r := range q.Raw {
		out = append(out, r)
	}
	for i := 0; i < q.RepeatF; i++ {
		out = append(out, derivedItem(seed+2, i))
	}
	return out
}

func evalC13(c c13Case, o *Obs) error {
	if len(c.D.Key) != 16 || c.D.P > 32 {
		return hbug("bad filter parameters")
	}
	if c.D.M == 0 {
		o.Class("C13:M=0") // degenerate but legal: every item maps to 0, members are still members
	}
	items := c.D.items()
	key := c.D.key()
	f, err := gcs.BuildGCSFilter(c.D.P, c.D.M, key, items)
	if err != nil {
		return fmt.Errorf("BuildGCSFilter(P=%d,M=%d,N=%d) failed: %v", c.D.P, c.D.M, len(items), err)
	}
	np := uint64(len(items)) * c.D.M
	vals := refGCSValues(key, c.D.M, items)
	set := make(map[uint64]bool, len(vals))
	low32 := map[uint32]uint64{}
	for _, v := range vals {
		set[v] = true
		low32[uint32(v)] = v
	}
	desc := fmt.Sprintf("filter(P=%d,M=%d,N=%d,key=%x)", c.D.P, c.D.M, len(items), key)
	o.Class("C13:P=%d", c.D.P)
	if np >= 1<<32 {
		o.Class("C13:N*M>=2^32")
	}
	if len(items) == 0 {
		o.Class("C13:empty-filter")
	}
	// every member is found by every strategy
	step := 1
	if len(items) > 128 {
		step = len(items) / 64
	}
	for i := 0; i < len(items); i += step {
		it := items[i]
		if ok, err := f.Match(key, it); err != nil || !ok {
			return fmt.Errorf("%s: member %x not matched by Match (%v, %v)", desc, it, ok, err)
		}
		for name, fn := range map[string]func([16]byte, [][]byte) (bool, error){"MatchAny": f.MatchAny, "ZipMatchAny": f.ZipMatchAny, "HashMatchAny": f.HashMatchAny} {
			if ok, err := fn(key, [][]byte{it}); err != nil || !ok {
				return fmt.Errorf("%s: member %x not matched by %s (%v, %v)", desc, it, name, ok, err)
			}
		}
	}
	// large sets: the members that stand on and next to every 1024th place of the sorted value list (where an
	// implementation that works through the list in blocks changes blocks), each asked for alone
	if len(items) > 2048 {
		np := uint64(len(items)) * c.D.M
		order := make([]int, len(items))
		vals := make([]uint64, len(items))
		for i, d := range items {
			order[i] = i
			vals[i] = refReduce(refSipHash(key, d), np)
		}
		sort.Slice(order, func(a, b int) bool { return vals[order[a]] < vals[order[b]] })
		for p := 1024; p < len(order); p += 1024 {
			for _, q := range []int{p - 1, p, p + 1} {
				if q >= len(order) {
					continue
				}
				it := items[order[q]]
				for name, fn := range map[string]func([16]byte, [][]byte) (bool, error){"ZipMatchAny": f.ZipMatchAny, "HashMatchAny": f.HashMatchAny} {
					if ok, err := fn(key, [][]byte{it}); err != nil || !ok {
						return fmt.Errorf("%s: the member at place %d of the sorted values (%x) is not matched by %s (%v, %v)", desc, q, it, name, ok, err)
					}
				}
			}
		}
		o.Class("C13:members-at-every-1024th-sorted-place")
		if len(items) > 60000 {
			// ... and a query of more than 2^16 items whose only member comes last
			q := make([][]byte, 0, 65600)
			for i := 0; i < 65599; i++ {
				q = append(q, derivedItem(c.D.Seed+9, i))
			}
			anyForeign := false
			set := map[uint64]bool{}
			for _, v := range vals {
				set[v] = true
			}
			for _, d := range q {
				if set[refReduce(refSipHash(key, d), np)] {
					anyForeign = true
				}
			}
			q = append(q, items[order[len(order)/2]])
			for name, fn := range map[string]func([16]byte, [][]byte) (bool, error){"MatchAny": f.MatchAny, "ZipMatchAny": f.ZipMatchAny, "HashMatchAny": f.HashMatchAny} {
				if ok, err := fn(key, q); err != nil || !ok {
					return fmt.Errorf("%s: a query of %d items whose last one is a member is not matched by %s (%v, %v)", desc, len(q), name, ok, err)
				}
				if !anyForeign {
					if ok, err := fn(key, q[:len(q)-1]); err != nil || ok {
						return fmt.Errorf("%s: a query of %d non-members is matched by %s (%v, %v)", desc, len(q)-1, name, ok, err)
					}
				}
			}
			o.Class("C13:query-of-more-than-2^16-items")
		}
	}
	// a sibling filter (other key, other parameters) is built and queried in between, and every
	// query is asked twice: answers must be stable and filters must not share state
	var hk [16]byte
	copy(hk[:], c.D.Key)
	hk[0] ^= 0xff
	hp := uint8((int(c.D.P) + 5) % 33)
	var hitems [][]byte
	for i := 0; i < len(items) && i < 50; i++ {
		hitems = append(hitems, append([]byte{0xee}, items[i]...))
	}
	hitems = append(hitems, []byte("sibling"))
	h, err := gcs.BuildGCSFilter(hp, uint64(1)<<hp, hk, hitems)
	if err != nil {
		return fmt.Errorf("sibling BuildGCSFilter failed: %v", err)
	}
	fbytes, _ := f.NBytes()
	for qi, q := range c.Qs {
		query := q.resolve(items, c.D.Seed)
		if ok, err := h.Match(hk, hitems[qi%len(hitems)]); err != nil || !ok {
			return fmt.Errorf("%s: sibling filter lost its member (%v, %v)", desc, ok, err)
		}
		h.MatchAny(hk, query)
		want := false
		for xi, x := range query {
			rv := refReduce(refSipHash(key, x), np)
			single := len(items) > 0 && set[rv]
			// Match decodes the whole filter: on large filters only the first items of a long query are asked singly
			if xi < 48 || len(items) < 4096 {
				got, err := f.Match(key, x)
				if err != nil || got != single {
					return fmt.Errorf("%s: Match(%x) = %v,%v; exact set semantics on the reduced hash says %v", desc, x, got, err, single)
				}
			}
			if single {
				want = true
			} else if v, ok := low32[uint32(rv)]; ok && v != rv {
				o.Class("C13:low-32-bit-collision-with-a-member")
			}
		}
		if len(query) > 0 && len(items) > 0 {
			o.NT()
		}
		if len(query) == 0 {
			o.Class("C13:empty-query")
		}
		if len(query) >= len(items)/2 {
			o.Class("C13:MatchAny->hash-branch")
		} else {
			o.Class("C13:MatchAny->zip-branch")
		}
		for _, st := range []struct {
			name string
			fn   func([16]byte, [][]byte) (bool, error)
		}{{"MatchAny", f.MatchAny}, {"ZipMatchAny", f.ZipMatchAny}, {"HashMatchAny", f.HashMatchAny}} {
			got, err := st.fn(key, query)
			if err != nil || got != want {
				return fmt.Errorf("%s query %d (%d items): %s = %v,%v but individually matching items exist = %v", desc, qi, len(query), st.name, got, err, want)
			}
			if again, err := st.fn(key, query); err != nil || again != got {
				return fmt.Errorf("%s query %d: %s answers %v the first time and %v the second time", desc, qi, st.name, got, again)
			}
		}
	}
	// a filter re-parsed from its serialisations answers like the one that was built
	if len(items) > 0 {
		nb, _ := f.NBytes()
		raw, _ := f.Bytes()
		fn, e1 := gcs.FromNBytes(c.D.P, c.D.M, append([]byte{}, nb...))
		fb, e2 := gcs.FromBytes(uint32(len(items)), c.D.P, c.D.M, append([]byte{}, raw...))
		if e1 != nil || e2 != nil {
			return fmt.Errorf("%s: re-parsing the filter's own serialisations fails: FromNBytes %v, FromBytes %v", desc, e1, e2)
		}
		for _, i := range []int{0, len(items) / 3, len(items) - 1} {
			for name, g := range map[string]*gcs.Filter{"FromNBytes": fn, "FromBytes": fb} {
				if ok, err := g.Match(key, items[i]); err != nil || !ok {
					return fmt.Errorf("%s: member %x is not matched by the filter re-parsed with %s (%v, %v)", desc, items[i], name, ok, err)
				}
				if ok, err := g.MatchAny(key, [][]byte{derivedItem(c.D.Seed+1, 1), items[i]}); err != nil || !ok {
					return fmt.Errorf("%s: member %x is not matched by MatchAny on the filter re-parsed with %s (%v, %v)", desc, items[i], name, ok, err)
				}
			}
		}
	}
	// the serialisations handed out are copies: the caller may do with them what it likes
	if len(items) > 0 {
		for _, get := range []func() ([]byte, error){f.Bytes, f.NBytes, f.PBytes, f.NPBytes} {
			if b, err := get(); err == nil {
				for i := range b {
					b[i] ^= 0xa5
				}
			}
		}
		for _, i := range []int{0, len(items) / 2, len(items) - 1} {
			if ok, err := f.Match(key, items[i]); err != nil || !ok {
				return fmt.Errorf("%s: member %x is no longer matched after the caller overwrote the slices returned by Bytes/NBytes/PBytes/NPBytes (%v, %v)", desc, items[i], ok, err)
			}
			if ok, err := f.MatchAny(key, [][]byte{items[i]}); err != nil || !ok {
				return fmt.Errorf("%s: member %x is no longer matched by MatchAny after the caller overwrote the returned serialisations (%v, %v)", desc, items[i], ok, err)
			}
		}
	}
	// call histories: the answers do not depend on what was asked before
	if len(c.Hist) > 0 && len(items) > 0 {
		o.Class("C13:call-history")
		type iv struct {
			item []byte
			v    uint64
		}
		byVal := make([]iv, len(items))
		for i, it := range items {
			byVal[i] = iv{it, refReduce(refSipHash(key, it), np)}
		}
		sort.Slice(byVal, func(a, b int) bool { return byVal[a].v > byVal[b].v })
		for hi, call := range c.Hist {
			var query [][]byte
			if call.Top > 0 {
				query = [][]byte{byVal[(call.Top-1)%len(byVal)].item}
			} else if len(c.Qs) > 0 {
				query = c.Qs[((call.Q%len(c.Qs))+len(c.Qs))%len(c.Qs)].resolve(items, c.D.Seed)
			}
			if len(query) == 0 {
				continue
			}
			want := false
			for _, x := range query {
				if set[refReduce(refSipHash(key, x), np)] {
					want = true
				}
			}
			var got bool
			var err error
			name := ""
			switch call.Op % 4 {
			case 0:
				name = "Match"
				query = query[:1]
				want = set[refReduce(refSipHash(key, query[0]), np)]
				got, err = f.Match(key, query[0])
			case 1:
				name = "MatchAny"
				got, err = f.MatchAny(key, query)
			case 2:
				name = "ZipMatchAny"
				got, err = f.ZipMatchAny(key, query)
			default:
				name = "HashMatchAny"
				got, err = f.HashMatchAny(key, query)
			}
			if err != nil || got != want {
				return fmt.Errorf("%s: call %d of the history, %s(%d items, first %x) = %v,%v; exact set semantics says %v (earlier calls: %v)",
					desc, hi, name, len(query), query[0], got, err, want, c.Hist[:hi])
			}
		}
	}
	if after, _ := f.NBytes(); !bytes.Equal(after, fbytes) {
		return fmt.Errorf("%s: the filter's serialisation changed while it was being queried", desc)
	}
	if f2, err := gcs.BuildGCSFilter(c.D.P, c.D.M, key, items); err == nil {
		if b2, _ := f2.NBytes(); !bytes.Equal(b2, fbytes) {
			return fmt.Errorf("%s: building the same filter a second time gives different bytes", desc)
		}
	}
	return nil
}

func genQueries(t *rapid.T, n int) []gcsQuery {
	var qs []gcsQuery
	nq := rapid.IntRange(1, 4).Draw(t, "nq")
	for i := 0; i < nq; i++ {
		var q gcsQuery
		switch rapid.IntRange(0, 6).Draw(t, "qcls") {
		case 0: // empty
		case 1: // members only
			for j := rapid.IntRange(1, 3).Draw(t, "nm"); j > 0; j-- {
				q.Member = append(q.Member, rapid.IntRange(0, 100000).Draw(t, "mi"))
			}
		case 2: // non-members only, small
			for j := rapid.IntRange(1, 5).Draw(t, "nf"); j > 0; j-- {
				q.Foreign = append(q.Foreign, rapid.IntRange(0, 100000).Draw(t, "fi"))
			}
		case 3: // many non-members (above N/2 -> hash strategy)
			q.RepeatF = n/2 + rapid.IntRange(0, 20).Draw(t, "rep")
		case 4: // mixed with duplicates
			m := rapid.IntRange(0, 100000).Draw(t, "mi")
			q.Member = []int{m, m}
			q.Foreign = []int{rapid.IntRange(0, 1000).Draw(t, "fi")}
			q.RepeatF = rapid.IntRange(0, n/2+2).Draw(t, "rep")
		case 5:
			q.Raw = []HexBytes{genBytes(t, "raw", 0, 40)}
		default:
			q.Foreign = []int{rapid.IntRange(0, 1000).Draw(t, "fi")}
			q.RepeatF = rapid.IntRange(0, n).Draw(t, "rep")
		}
		if rapid.IntRange(0, 3).Draw(t, "qouts") == 0 { // outpoints of the one transaction, non-members before members
			q.Outs = []int{1000 + rapid.IntRange(0, 9).Draw(t, "oq1"), rapid.IntRange(0, 5).Draw(t, "oq2"), 2000}
		}
		qs = append(qs, q)
	}
	return qs
}

var kC13 = register(&Kind[c13Case]{
	Prop: "C13", Name: "query",
	Gen: func(t *rapid.T) c13Case {
		d := genGCSData(t, pick(2000, 20000))
		c := c13Case{D: d, Qs: genQueries(t, d.N)}
		if rapid.Bool().Draw(t, "hist") {
			for i := rapid.IntRange(2, 12).Draw(t, "nhist"); i > 0; i-- {
				call := gcsCall{Op: rapid.IntRange(0, 3).Draw(t, "hop"), Q: rapid.IntRange(0, 3).Draw(t, "hq")}
				if rapid.Bool().Draw(t, "htop") {
					call.Top = rapid.IntRange(1, 4).Draw(t, "htopk")
				}
				c.Hist = append(c.Hist, call)
			}
		}
		return c
	},
	Eval: evalC13,
})

// ---- C13 kind: collide (directed: low-32-bit collisions) -------------------------------

type c13Collide struct {
	Key   HexBytes `json:"key"`
	P     uint8    `json:"p"`
	M     uint64   `json:"m"`
	N     int      `json:"n"`
	Seed  uint32   `json:"seed"`
	Cands int      `json:"candidates"`
}

func evalC13Collide(c c13Collide, o *Obs) error {
	if len(c.Key) != 16 || c.P > 32 || c.M == 0 || c.N < 1 {
		return hbug("bad parameters")
	}
	var key [16]byte
	copy(key[:], c.Key)
	np := uint64(c.N) * c.M
	if np < 1<<33 {
		return hbug("N*M too small for a directed collision search")
	}
	// candidates: derived items; find pairs (a,b), reduce(a) != reduce(b), equal mod 2^32
	byLow := make(map[uint32]int, c.Cands)
	vals := make([]uint64, c.Cands)
	type pair struct{ a, b int }
	var pairs []pair
	for i := 0; i < c.Cands; i++ {
		v := refReduce(refSipHash(key, derivedItem(c.Seed, i)), np)
		vals[i] = v
		if j, ok := byLow[uint32(v)]; ok && vals[j] != v {
			pairs = append(pairs, pair{j, i})
		} else if !ok {
			byLow[uint32(v)] = i
		}
	}
	if len(pairs) == 0 {
		o.Class("C13:collide-none-found")
		return nil
	}
	o.Class("C13:collide-pairs-found")
	for pi, pr := range pairs {
		if pi >= 40 {
			break
		}
		// the set: item a plus N-1 fillers; reduced values depend on N*M only, so the
		// collision persists as long as the set has exactly N elements.
		items := [][]byte{derivedItem(c.Seed, pr.a)}
		setVals := map[uint64]bool{vals[pr.a]: true}
		for k := 0; len(items) < c.N; k++ {
			it := derivedItem(c.Seed+7, k)
			items = append(items, it)
			setVals[refReduce(refSipHash(key, it), np)] = true
		}
		b := derivedItem(c.Seed, pr.b)
		if setVals[vals[pr.b]] {
			continue
		}
		// both colliding items as MEMBERS of one set: each is found alone and among non-members by every strategy
		if c.N >= 2 {
			both := append([][]byte{b}, items[:c.N-1]...)
			f2, err := gcs.BuildGCSFilter(c.P, c.M, key, both)
			if err != nil {
				return fmt.Errorf("BuildGCSFilter failed: %v", err)
			}
			o.Class("C13:two-members-congruent-mod-2^32")
			for _, m := range [][]byte{items[0], b} {
				for _, pad := range []int{0, c.N} {
					query := [][]byte{m}
					for k := 0; k < pad; k++ {
						query = append(query, derivedItem(c.Seed+11, k))
					}
					for _, st := range []struct {
						name string
						fn   func([16]byte, [][]byte) (bool, error)
					}{{"MatchAny", f2.MatchAny}, {"ZipMatchAny", f2.ZipMatchAny}, {"HashMatchAny", f2.HashMatchAny}} {
						if got, err := st.fn(key, query); err != nil || !got {
							return fmt.Errorf("filter(P=%d,M=%d,N=%d,key=%x) with members %x and %x whose reduced values %#x and %#x agree modulo 2^32: %s(query of %d items incl. member %x) = %v,%v",
								c.P, c.M, c.N, key, items[0], b, vals[pr.a], vals[pr.b], st.name, len(query), m, got, err)
						}
					}
				}
				if got, err := f2.Match(key, m); err != nil || !got {
					return fmt.Errorf("filter(P=%d,M=%d,N=%d,key=%x): member %x not matched (%v,%v)", c.P, c.M, c.N, key, m, got, err)
				}
			}
		}
		f, err := gcs.BuildGCSFilter(c.P, c.M, key, items)
		if err != nil {
			return fmt.Errorf("BuildGCSFilter failed: %v", err)
		}
		o.NT()
		o.Class("C13:low-32-bit-collision-with-a-member")
		single, err := f.Match(key, b)
		if err != nil || single {
			return fmt.Errorf("filter(P=%d,M=%d,N=%d): Match(%x) = %v,%v for a non-member (reduced %#x, member %#x)", c.P, c.M, c.N, b, single, err, vals[pr.b], vals[pr.a])
		}
		// query sizes below and above N/2
		for _, pad := range []int{0, c.N} {
			query := [][]byte{b}
			for k := 0; k < pad; k++ {
				it := derivedItem(c.Seed+9, k)
				rv := refReduce(refSipHash(key, it), np)
				if !setVals[rv] {
					if _, clash := byLowOf(setVals, rv); !clash {
						query = append(query, it)
					}
				}
			}
			for _, st := range []struct {
				name string
				fn   func([16]byte, [][]byte) (bool, error)
			}{{"MatchAny", f.MatchAny}, {"ZipMatchAny", f.ZipMatchAny}, {"HashMatchAny", f.HashMatchAny}} {
				got, err := st.fn(key, query)
				if err != nil || got {
					return fmt.Errorf("filter(P=%d,M=%d,N=%d,key=%x) built from %d items incl. %x: %s(query of %d non-members incl. %x) = %v,%v "+
						"although no queried item matches individually (reduced value %#x equals member value %#x modulo 2^32)",
						c.P, c.M, c.N, key, len(items), items[0], st.name, len(query), b, got, err, vals[pr.b], vals[pr.a])
				}
			}
		}
	}
	return nil
}

// byLowOf reports whether some set value shares the low 32 bits with v (and differs).
func byLowOf(set map[uint64]bool, v uint64) (uint64, bool) {
	for s := range set {
		if uint32(s) == uint32(v) && s != v {
			return s, true
		}
	}
	return 0, false
}

var kC13Collide = register(&Kind[c13Collide]{
	Prop: "C13", Name: "collide",
	Gen: func(t *rapid.T) c13Collide {
		c := c13Collide{Key: genBytesN(t, "key", 16), Seed: rapid.Uint32().Draw(t, "seed")}
		c.P = uint8(rapid.IntRange(24, 32).Draw(t, "p"))
		c.N = rapid.IntRange(1, 24).Draw(t, "n")
		// N*M about 2^38..2^41 so that 2^18 candidates give tens of colliding pairs
		c.M = uint64(1) << uint(rapid.IntRange(34, 37).Draw(t, "mexp"))
		c.M |= uint64(rapid.IntRange(0, 1000).Draw(t, "mlow"))
		c.Cands = 1 << 18
		return c
	},
	Eval: evalC13Collide,
})

func TestC13(t *testing.T) {
	propTest(t, "C13", func(ev *Ev) {
		ev.Rule("key x P (0..32, all values) x M (1, 2^P/2..64*2^P, 784931; N*M < 2^62) x multisets (N 0..2000 quick / 20000 thorough, "+
			"duplicates, explicit items of length 0..40) x query sets (members, non-members, mixed, duplicated, empty; sizes below "+
			"and above N/2). Directed kind: with N*M >= 2^33 search 2^18 candidates for pairs whose reduced hashes agree modulo "+
			"2^32 but differ, put one in the set and query the other with all strategies. Oracle: exact set semantics on reduced "+
			"SipHash values (own SipHash-2-4, bits.Mul64): Match(x) <=> reduce(x) in V; MatchAny/ZipMatchAny/HashMatchAny <=> some "+
			"queried item matches individually; empty filter or query => false. Non-trivial = N>=1 and non-empty query.",
			"reference SipHash pinned to the paper's vectors and cross-checked against aead/siphash (dependency, not under test)")
		refSelfGCS(ev)
		if len(ev.harnessErrors) > 0 {
			return
		}
		kC13Collide.Run(t, ev, perShard(pick(12, 600)))
		// every run also sees sets around 2^16 members (one per shard), whatever the random sizes were
		{
			n := []int{65535, 65536, 65537, 70001}[shard%4]
			d := gcsData{Key: HexBytes(bytes.Repeat([]byte{byte(shard + 1)}, 16)), P: 19, M: 784931, N: n, Seed: uint32(seedEnv)}
			kC13.One(ev, c13Case{D: d, Qs: []gcsQuery{{Member: []int{0, n - 1}}, {Foreign: []int{1, 2, 3}}, {Member: []int{n / 2}, RepeatF: n/2 + 5}, {Foreign: []int{7}, RepeatF: n / 2}}})
		}
		// ... and values up to 2^50 with queries of several hundred items on the merge (zip) path
		{
			n := []int{2048, 3000, 4096, 5000}[shard%4]
			d := gcsData{Key: HexBytes(bytes.Repeat([]byte{byte(0x40 + shard)}, 16)), P: 32, M: 1 << 38, N: n, Seed: uint32(seedEnv) + 77}
			kC13.One(ev, c13Case{D: d, Qs: []gcsQuery{{Member: []int{n - 1}, RepeatF: 300}, {RepeatF: 400}, {Member: []int{0, n / 2}, RepeatF: 260}, {Foreign: []int{5}, RepeatF: 257}}})
		}
		kC13.Run(t, ev, perShard(pick(2000, 15000)))
		ev.requireClasses("C13:P=0", "C13:P=32", "C13:N*M>=2^32", "C13:empty-filter", "C13:empty-query",
			"C13:MatchAny->hash-branch", "C13:MatchAny->zip-branch", "C13:low-32-bit-collision-with-a-member", "C13:call-history")
	})
}
