//go:build verif

package harness

import (
	"github.com/gcash/bchutil"
	"github.com/gcash/bchutil/bech32"
)

// hookMode: the repository was built with tag verif and exports its remainder
// functions (see MANIFEST.hooks).
const hookMode = true

func implCashRemainder(prefix string, syms []byte) uint64 {
	v := make([]byte, 0, len(prefix)+1+len(syms))
	for i := 0; i < len(prefix); i++ {
		v = append(v, prefix[i]&0x1f)
	}
	v = append(v, 0)
	v = append(v, syms...)
	return bchutil.VerifPolyMod(v)
}

func implBech32Remainder(hrp string, syms []byte) uint64 {
	v := make([]int, 0, 2*len(hrp)+1+len(syms))
	for i := 0; i < len(hrp); i++ {
		v = append(v, int(hrp[i]>>5))
	}
	v = append(v, 0)
	for i := 0; i < len(hrp); i++ {
		v = append(v, int(hrp[i]&31))
	}
	for _, s := range syms {
		v = append(v, int(s))
	}
	return uint64(bech32.VerifPolymod(v))
}
