package harness

// Generators shared between properties.  All randomness comes from rapid draws.

import (
	"bytes"
	"fmt"
	"github.com/gcash/bchd/wire"
	"github.com/gcash/bchutil"
	"github.com/gcash/bchutil/hdkeychain"
	"math/big"
	"sync"

	"github.com/gcash/bchd/bchec"
	"github.com/gcash/bchd/chaincfg"
	"pgregory.net/rapid"
)

// genBytesN draws a byte string of exactly n bytes with a biased shape.
func genBytesN(t *rapid.T, label string, n int) []byte {
	if n == 0 {
		return []byte{}
	}
	shape := rapid.IntRange(0, 11).Draw(t, label+"_shape")
	b := make([]byte, n)
	switch shape {
	case 10, 11: // machine words with extreme values: where carries, borrows and sign bits live
		fillWords(t, label, b)
	case 0: // all zero
	case 1:
		for i := range b {
			b[i] = 0xff
		}
	case 2, 3: // leading zero run then random
		z := rapid.IntRange(1, n).Draw(t, label+"_lz")
		r := rapid.SliceOfN(rapid.Byte(), n-z, n-z).Draw(t, label+"_rnd")
		copy(b[z:], r)
	case 4: // trailing zero run
		z := rapid.IntRange(1, n).Draw(t, label+"_tz")
		r := rapid.SliceOfN(rapid.Byte(), n-z, n-z).Draw(t, label+"_rnd")
		copy(b, r)
	case 5: // single set bit
		i := rapid.IntRange(0, n*8-1).Draw(t, label+"_bit")
		b[i/8] = 1 << uint(i%8)
	default:
		copy(b, rapid.SliceOfN(rapid.Byte(), n, n).Draw(t, label+"_rnd"))
	}
	return b
}

// fillWords fills b with 2-, 4- or 8-byte words (big- or little-endian alignment from either end) drawn
// mostly from {0, all ones, top bit only, all but the top bit, 1, all ones minus 1} and otherwise at random.
func fillWords(t *rapid.T, label string, b []byte) {
	w := rapid.SampledFrom([]int{2, 4, 4, 8}).Draw(t, label+"_w")
	off := 0
	if rapid.Bool().Draw(t, label+"_fromend") {
		off = len(b) % w
	}
	for i := range b[:off] {
		b[i] = rapid.SampledFrom([]byte{0, 0xff, 1, 0x80}).Draw(t, label+"_head")
		_ = i
	}
	for p := off; p < len(b); p += w {
		end := p + w
		if end > len(b) {
			end = len(b)
		}
		word := b[p:end]
		switch rapid.IntRange(0, 8).Draw(t, label+"_wv") {
		case 0: // zero
		case 1, 2:
			for i := range word {
				word[i] = 0xff
			}
		case 3:
			word[0] = 0x80
		case 4:
			for i := range word {
				word[i] = 0xff
			}
			word[0] = 0x7f
		case 5:
			word[len(word)-1] = 1
		case 6:
			for i := range word {
				word[i] = 0xff
			}
			word[len(word)-1] = 0xfe
		default:
			copy(word, rapid.SliceOfN(rapid.Byte(), len(word), len(word)).Draw(t, label+"_wr"))
		}
	}
}

// genBytes draws a biased byte string with length in [min,max].
func genBytes(t *rapid.T, label string, min, max int) []byte {
	n := rapid.IntRange(min, max).Draw(t, label+"_len")
	return genBytesN(t, label, n)
}

// withSpareCap returns a copy of b living in a larger backing array whose spare
// capacity is filled with the canary 0xA5, and the full backing array.
func withSpareCap(b []byte, spare int) (arg []byte, backing []byte) {
	backing = make([]byte, len(b)+spare)
	copy(backing, b)
	for i := len(b); i < len(backing); i++ {
		backing[i] = 0xA5
	}
	return backing[:len(b):len(backing)], backing
}

// ---------------------------------------------------------------------------------
// networks

type netInfo struct {
	Name   string
	Params *chaincfg.Params
}

var nets = []netInfo{
	{"mainnet", &chaincfg.MainNetParams},
	{"testnet3", &chaincfg.TestNet3Params},
	{"testnet4", &chaincfg.TestNet4Params},
	{"chipnet", &chaincfg.ChipNetParams},
	{"regtest", &chaincfg.RegressionNetParams},
	{"simnet", &chaincfg.SimNetParams},
}

// setupProp registers further networks with chaincfg, after the library's packages have been initialised,
// and adds them to the table: "every registered network" includes those a program registers itself.  It
// runs at the start of a check and of a replay alike (a check process runs one property only).
//   - C04, C05, C06, C15 (which quantify over registered networks): one network whose identifiers collide
//     with nothing;
//   - C02: that one (as "custc") and two whose legacy version bytes collide crosswise: 0xa1 is P2PKH on
//     one and P2SH on the other, 0xa2 the other way round - a legacy string with such a byte cannot be
//     attributed to one kind and must not be accepted as either - and one ("custd") that collides with a
//     standard network in the same way.
var setupOnce sync.Once

// nBuiltinNets: the networks chaincfg ships with come first in nets; setupProp appends caller-made ones.
var nBuiltinNets = len(nets)

func setupProp(prop string) (err error) {
	setupOnce.Do(func() {
		mk := func(name string, magic uint32, cash, slp string, pkh, sh, wif, hd byte) *chaincfg.Params {
			n := chaincfg.MainNetParams
			n.Name, n.Net, n.CashAddressPrefix, n.SlpAddressPrefix = name, wire.BitcoinNet(magic), cash, slp
			n.LegacyPubKeyHashAddrID, n.LegacyScriptHashAddrID, n.PrivateKeyID = pkh, sh, wif
			n.HDPrivateKeyID, n.HDPublicKeyID = [4]byte{hd, 1, 1, 1}, [4]byte{hd, 1, 1, 2}
			return &n
		}
		var add []*chaincfg.Params
		switch prop {
		case "C02":
			add = []*chaincfg.Params{mk("custa", 0xa1a1a1a1, "bchcusta", "slpcusta", 0xa1, 0xa2, 0xa3, 0x0a),
				mk("custb", 0xb2b2b2b2, "bchcustb", "slpcustb", 0xa2, 0xa1, 0xa4, 0x0b),
				mk("custc", 0xc3c3c3c3, "zcashy", "zslpy", 0xb1, 0xb2, 0xb3, 0x0c),
				// its P2PKH byte is testnet's P2SH byte: registered after the library has been used, it turns
				// every legacy string with that byte into a collision
				mk("custd", 0xd6d6d6d6, "bchcustd", "slpcustd", 0xc4, 0xb4, 0xb5, 0x0f)}
		case "C01":
			// a caller-made network whose prefixes use the letters at the ends of the alphabet
			add = []*chaincfg.Params{mk("zednet", 0xf7f7f7f7, "zcashy", "zslpy", 0xe1, 0xe2, 0xe3, 0x1a)}
		case "C04", "C05", "C06", "C15":
			// the second one has 0x00 as its WIF identifier: zero is a value, not "unset"
			add = []*chaincfg.Params{mk("latenet", 0xd4d4d4d4, "bchlate", "slplate", 0xd1, 0xd2, 0xd3, 0x0d),
				mk("zeronet", 0xe5e5e5e5, "bchzero", "slpzero", 0xd5, 0xd6, 0x00, 0x0e)}
		}
		// The library is used before the further networks exist: whatever it tabulates on first use must not
		// make it blind to networks registered later.
		warmUp()
		for _, n := range add {
			if e := chaincfg.Register(n); e != nil {
				err = fmt.Errorf("cannot register network %s: %v", n.Name, e)
				return
			}
			nets = append(nets, netInfo{n.Name, n})
		}
		for _, n := range nets {
			netSnapshot = append(netSnapshot, snapNet(n.Params))
		}
	})
	return err
}

func warmUp() {
	main := &chaincfg.MainNetParams
	h := bytes.Repeat([]byte{0x42}, 20)
	strs := []string{"02192d74d0cb94344c9569c2e77901573d8d7903c3ebec3a957724895dca52c6b4"}
	for _, n := range nets {
		strs = append(strs, refB58CheckEncode(h, n.Params.LegacyPubKeyHashAddrID), refB58CheckEncode(h, n.Params.LegacyScriptHashAddrID),
			refCashEncode(n.Params.CashAddressPrefix, 0, h), n.Params.CashAddressPrefix+":"+refCashEncode(n.Params.CashAddressPrefix, 1, h))
	}
	decoded := 0
	for _, s := range strs {
		for _, n := range nets {
			if a, err := bchutil.DecodeAddress(s, n.Params); err == nil {
				a.IsForNet(main)
				a.EncodeAddress()
				decoded++
			}
		}
	}
	if decoded < 12 {
		panic("warm-up: the valid strings built for it do not decode")
	}
	bchutil.DecodeWIF(refWIFEncode(main.PrivateKeyID, bytes.Repeat([]byte{3}, 32), true))
	if k, err := hdkeychain.NewMaster(bytes.Repeat([]byte{7}, 32), main); err == nil {
		k.Neuter()
		k.String()
		if c, err := k.Child(1); err == nil {
			c.Address(main)
		}
		hdkeychain.NewKeyFromString(k.String())
	}
}

// The network parameters are global, shared data that the library reads (and hands out slices of).  Their
// identifying fields are copied when the process starts and compared after every case: a library call that
// writes into them corrupts every later use, including the reference models of this harness, which read the
// same globals - so without this comparison such a write could go unnoticed.
type netSnap struct {
	name, cash, slp string
	pkh, sh, wif    byte
	hdPriv, hdPub   [4]byte
	magic           wire.BitcoinNet
}

var netSnapshot []netSnap

func snapNet(p *chaincfg.Params) netSnap {
	return netSnap{p.Name, p.CashAddressPrefix, p.SlpAddressPrefix, p.LegacyPubKeyHashAddrID, p.LegacyScriptHashAddrID, p.PrivateKeyID,
		p.HDPrivateKeyID, p.HDPublicKeyID, p.Net}
}

func netsIntact() error {
	for i, s := range netSnapshot {
		if i < len(nets) {
			if now := snapNet(nets[i].Params); now != s {
				return fmt.Errorf("the library modified the global parameters of network %s: they were %+v and are now %+v (by this case or an earlier one of this process)", s.name, s, now)
			}
		}
	}
	return nil
}

func genNet(t *rapid.T) int { return rapid.IntRange(0, len(nets)-1).Draw(t, "net") }

// ---------------------------------------------------------------------------------
// secp256k1

var (
	curveN = bchec.S256().N
	curveP = bchec.S256().P
)

// genScalar draws a scalar in [1, n-1], biased to the boundaries and to values with
// leading zero bytes.
func genScalar(t *rapid.T, label string) []byte {
	var k *big.Int
	switch rapid.IntRange(0, 9).Draw(t, label+"_shape") {
	case 8: // scalars whose points are special: small multiples, (n+-1)/2 (x coordinates with long zero runs), n-2, n-3
		half := new(big.Int).Rsh(new(big.Int).Add(curveN, big.NewInt(1)), 1)
		k = []*big.Int{big.NewInt(2), big.NewInt(3), big.NewInt(4), half, new(big.Int).Sub(half, big.NewInt(1)), new(big.Int).Sub(curveN, big.NewInt(2)),
			new(big.Int).Sub(curveN, big.NewInt(3)), new(big.Int).Lsh(big.NewInt(1), 255), new(big.Int).Lsh(big.NewInt(1), 128)}[rapid.IntRange(0, 8).Draw(t, label+"_special")]
	case 9: // extreme machine words (carries between limbs)
		wb := make([]byte, 32)
		fillWords(t, label, wb)
		k = new(big.Int).SetBytes(wb)
	case 0:
		k = big.NewInt(1)
	case 1:
		k = new(big.Int).Sub(curveN, big.NewInt(1))
	case 2, 3: // forced leading zero bytes
		z := rapid.IntRange(1, 31).Draw(t, label+"_lz")
		r := rapid.SliceOfN(rapid.Byte(), 32-z, 32-z).Draw(t, label+"_rnd")
		k = new(big.Int).SetBytes(r)
	case 4:
		k = big.NewInt(int64(rapid.IntRange(1, 65535).Draw(t, label+"_small")))
	default:
		r := rapid.SliceOfN(rapid.Byte(), 32, 32).Draw(t, label+"_rnd")
		k = new(big.Int).SetBytes(r)
	}
	k.Mod(k, curveN)
	if k.Sign() == 0 {
		k.SetInt64(1)
	}
	out := make([]byte, 32)
	kb := k.Bytes()
	copy(out[32-len(kb):], kb)
	return out
}

// pubPoint returns k*G.
func pubPoint(k []byte) (x, y *big.Int) {
	return bchec.S256().ScalarBaseMult(k)
}

func pad32(v *big.Int) []byte {
	out := make([]byte, 32)
	b := v.Bytes()
	copy(out[32-len(b):], b)
	return out
}

// serPub serialises a point: format 0 compressed, 1 uncompressed, 2 hybrid.
func serPub(x, y *big.Int, format int) []byte {
	switch format {
	case 0:
		out := []byte{0x02 | byte(y.Bit(0))}
		return append(out, pad32(x)...)
	case 1:
		out := []byte{0x04}
		out = append(out, pad32(x)...)
		return append(out, pad32(y)...)
	default:
		out := []byte{0x06 | byte(y.Bit(0))}
		out = append(out, pad32(x)...)
		return append(out, pad32(y)...)
	}
}

// onCurve reports whether (x,y) satisfies y^2 = x^3 + 7 mod p with both < p.
func onCurve(x, y *big.Int) bool {
	if x.Sign() < 0 || y.Sign() < 0 || x.Cmp(curveP) >= 0 || y.Cmp(curveP) >= 0 {
		return false
	}
	l := new(big.Int).Mul(y, y)
	l.Mod(l, curveP)
	r := new(big.Int).Mul(x, x)
	r.Mul(r, x)
	r.Add(r, big.NewInt(7))
	r.Mod(r, curveP)
	return l.Cmp(r) == 0
}

// liftX returns a y with y^2 = x^3+7 (mod p) if one exists.
func liftX(x *big.Int) (*big.Int, bool) {
	if x.Cmp(curveP) >= 0 {
		return nil, false
	}
	r := new(big.Int).Mul(x, x)
	r.Mul(r, x)
	r.Add(r, big.NewInt(7))
	r.Mod(r, curveP)
	y := new(big.Int).ModSqrt(r, curveP)
	if y == nil {
		return nil, false
	}
	return y, true
}

func curveNMinus1() *big.Int { return new(big.Int).Sub(curveN, big.NewInt(1)) }

// aliasChar replaces one character of s by a byte sequence that a sloppy decoder may
// confuse with it: a multi-byte UTF-8 rune whose code point has the same low byte
// (U+01xx, U+02xx), or the byte with bit 5, 6 or 7 flipped (case bit, control-char
// alias of digits, high bit).
func aliasChar(t *rapid.T, s string) string {
	if len(s) == 0 {
		return s
	}
	i := rapid.IntRange(0, len(s)-1).Draw(t, "alias_i")
	c := s[i]
	var rep string
	folds := map[byte]string{'k': "\u212a", 'K': "\u212a", 's': "\u017f", 'S': "\u017f", 'i': "\u0130", 'I': "\u0131"}
	if f, ok := folds[c]; ok && rapid.Bool().Draw(t, "alias_fold") {
		return s[:i] + f + s[i+1:]
	}
	switch rapid.IntRange(0, 5).Draw(t, "alias_kind") {
	case 0:
		rep = string(rune(0x100 + int(c)))
	case 1:
		rep = string(rune(0x200 + int(c)))
	case 2:
		rep = string([]byte{c ^ 0x20})
	case 3:
		rep = string([]byte{c ^ 0x40})
	case 4:
		rep = string([]byte{c | 0x80})
	default:
		rep = string(rune(0xff00 + int(c))) // full-width forms block
	}
	return s[:i] + rep + s[i+1:]
}
