package harness

// Reference codecs written from the specifications (not from the code under test):
// Base58 / Base58Check (byte-wise long division, no big integers), BIP173 bech32,
// CashAddr.  Pinned to published vectors by TestRefSelf* (run as part of each check).

import (
	"crypto/sha256"
	"errors"
	"strings"
)

const b58Alphabet = "123456789ABCDEFGHJKLMNPQRSTUVWXYZabcdefghijkmnopqrstuvwxyz"

// refB58Encode: repeated division of the byte string by 58.
func refB58Encode(in []byte) string {
	zeros := 0
	for zeros < len(in) && in[zeros] == 0 {
		zeros++
	}
	num := append([]byte{}, in[zeros:]...)
	var out []byte
	for len(num) > 0 {
		rem := 0
		var q []byte
		for _, b := range num {
			acc := rem*256 + int(b)
			d := acc / 58
			rem = acc % 58
			if len(q) > 0 || d != 0 {
				q = append(q, byte(d))
			}
		}
		out = append(out, b58Alphabet[rem])
		num = q
	}
	for i := 0; i < zeros; i++ {
		out = append(out, '1')
	}
	for i, j := 0, len(out)-1; i < j; i, j = i+1, j-1 {
		out[i], out[j] = out[j], out[i]
	}
	return string(out)
}

// refB58Decode: multiply-accumulate in base 256; ok=false on a foreign character.
func refB58Decode(s string) ([]byte, bool) {
	zeros := 0
	for zeros < len(s) && s[zeros] == '1' {
		zeros++
	}
	var num []byte // big-endian
	for i := 0; i < len(s); i++ {
		d := strings.IndexByte(b58Alphabet, s[i])
		if d < 0 {
			return nil, false
		}
		carry := d
		for j := len(num) - 1; j >= 0; j-- {
			acc := int(num[j])*58 + carry
			num[j] = byte(acc & 0xff)
			carry = acc >> 8
		}
		for carry > 0 {
			num = append([]byte{byte(carry & 0xff)}, num...)
			carry >>= 8
		}
	}
	// strip leading zero bytes of the number (they are represented by the '1's)
	k := 0
	for k < len(num) && num[k] == 0 {
		k++
	}
	out := make([]byte, zeros, zeros+len(num)-k)
	return append(out, num[k:]...), true
}

func dsha256(b []byte) []byte {
	h := sha256.Sum256(b)
	h2 := sha256.Sum256(h[:])
	return h2[:]
}

func refB58CheckEncode(payload []byte, version byte) string {
	b := append([]byte{version}, payload...)
	b = append(b, dsha256(b)[:4]...)
	return refB58Encode(b)
}

// refB58CheckDecode returns (payload, version, ok).
func refB58CheckDecode(s string) ([]byte, byte, bool) {
	d, ok := refB58Decode(s)
	if !ok || len(d) < 5 {
		return nil, 0, false
	}
	body := d[:len(d)-4]
	if string(dsha256(body)[:4]) != string(d[len(d)-4:]) {
		return nil, 0, false
	}
	return body[1:], body[0], true
}

// ---------------------------------------------------------------------------------
// bech32 (BIP173 reference, transliterated from the BIP's Python)

const b32Charset = "qpzry9x8gf2tvdw0s3jn54khce6mua7l"

var bech32Gen = [5]uint32{0x3b6a57b2, 0x26508e6d, 0x1ea119fa, 0x3d4233dd, 0x2a1462b3}

func refBech32Polymod(values []byte) uint32 {
	chk := uint32(1)
	for _, v := range values {
		top := chk >> 25
		chk = (chk&0x1ffffff)<<5 ^ uint32(v)
		for i := 0; i < 5; i++ {
			if (top>>uint(i))&1 == 1 {
				chk ^= bech32Gen[i]
			}
		}
	}
	return chk
}

func refBech32HrpExpand(hrp string) []byte {
	var out []byte
	for i := 0; i < len(hrp); i++ {
		out = append(out, hrp[i]>>5)
	}
	out = append(out, 0)
	for i := 0; i < len(hrp); i++ {
		out = append(out, hrp[i]&31)
	}
	return out
}

func refBech32Checksum(hrp string, data []byte) []byte {
	values := append(refBech32HrpExpand(hrp), data...)
	values = append(values, 0, 0, 0, 0, 0, 0)
	pm := refBech32Polymod(values) ^ 1
	out := make([]byte, 6)
	for i := 0; i < 6; i++ {
		out[i] = byte((pm >> uint(5*(5-i))) & 31)
	}
	return out
}

func refBech32Encode(hrp string, data []byte) string {
	comb := append(append([]byte{}, data...), refBech32Checksum(hrp, data)...)
	var sb strings.Builder
	sb.WriteString(hrp)
	sb.WriteByte('1')
	for _, d := range comb {
		sb.WriteByte(b32Charset[d])
	}
	return sb.String()
}

// refBech32Decode implements BIP173's bech32_decode (plus the 8-character minimum
// that follows from hrp>=1, separator, 6 checksum characters).
func refBech32Decode(s string) (string, []byte, error) {
	for i := 0; i < len(s); i++ {
		if s[i] < 33 || s[i] > 126 {
			return "", nil, errors.New("char out of range")
		}
	}
	lower, upper := asciiLower(s), asciiUpper(s)
	if s != lower && s != upper {
		return "", nil, errors.New("mixed case")
	}
	s = lower
	pos := strings.LastIndexByte(s, '1')
	if pos < 1 || pos+7 > len(s) || len(s) > 90 {
		return "", nil, errors.New("separator / length")
	}
	hrp := s[:pos]
	var data []byte
	for i := pos + 1; i < len(s); i++ {
		d := strings.IndexByte(b32Charset, s[i])
		if d < 0 {
			return "", nil, errors.New("foreign data char")
		}
		data = append(data, byte(d))
	}
	if refBech32Polymod(append(refBech32HrpExpand(hrp), data...)) != 1 {
		return "", nil, errors.New("checksum")
	}
	return hrp, data[:len(data)-6], nil
}

func asciiLower(s string) string {
	b := []byte(s)
	for i, c := range b {
		if c >= 'A' && c <= 'Z' {
			b[i] = c + 32
		}
	}
	return string(b)
}

func asciiUpper(s string) string {
	b := []byte(s)
	for i, c := range b {
		if c >= 'a' && c <= 'z' {
			b[i] = c - 32
		}
	}
	return string(b)
}

// refConvertBits is BIP173's convertbits (general power-of-2 base conversion).
// Returns nil,false on invalid input value or (pad=false) invalid padding.
func refConvertBits(data []byte, from, to uint, pad bool) ([]byte, bool) {
	acc, bits := uint(0), uint(0)
	out := []byte{}
	maxv := uint(1)<<to - 1
	maxAcc := uint(1)<<(from+to-1) - 1
	for _, v := range data {
		if uint(v)>>from != 0 {
			return nil, false
		}
		acc = ((acc << from) | uint(v)) & maxAcc
		bits += from
		for bits >= to {
			bits -= to
			out = append(out, byte((acc>>bits)&maxv))
		}
	}
	if pad {
		if bits > 0 {
			out = append(out, byte((acc<<(to-bits))&maxv))
		}
	} else if bits >= from || ((acc<<(to-bits))&maxv) != 0 {
		return nil, false
	}
	return out, true
}

// bitStreamRegroup is the plain bit-stream model of regrouping: concatenate the low
// `from` bits of every value MSB first and cut into groups of `to` bits.  It returns
// the complete groups, the incomplete tail (left-aligned in `to` bits, as zero padded)
// and the number of tail bits.
func bitStreamRegroup(data []byte, from, to uint) (groups []byte, tail byte, tailBits uint) {
	var bitsBuf []byte
	for _, v := range data {
		for i := int(from) - 1; i >= 0; i-- {
			bitsBuf = append(bitsBuf, (v>>uint(i))&1)
		}
	}
	groups = []byte{}
	i := 0
	for ; i+int(to) <= len(bitsBuf); i += int(to) {
		var g byte
		for j := 0; j < int(to); j++ {
			g = g<<1 | bitsBuf[i+j]
		}
		groups = append(groups, g)
	}
	tailBits = uint(len(bitsBuf) - i)
	for j := i; j < len(bitsBuf); j++ {
		tail = tail<<1 | bitsBuf[j]
	}
	if tailBits > 0 {
		tail <<= to - tailBits
	}
	return
}

// ---------------------------------------------------------------------------------
// CashAddr (from the specification: 40-bit BCH code over GF(32))

var cashGen = [5]uint64{0x98f2bc8e61, 0x79b76d99e2, 0xf33e5fb3c4, 0xae2eabe2a8, 0x1e4f43e470}

// refCashPolymod is the spec's PolyMod (returns c ^ 1; a valid string gives 0).
func refCashPolymod(v []byte) uint64 {
	c := uint64(1)
	for _, d := range v {
		c0 := c >> 35
		c = ((c & 0x07ffffffff) << 5) ^ uint64(d)
		for i := 0; i < 5; i++ {
			if (c0>>uint(i))&1 == 1 {
				c ^= cashGen[i]
			}
		}
	}
	return c ^ 1
}

func refCashPrefixExpand(prefix string) []byte {
	out := make([]byte, 0, len(prefix)+1)
	for i := 0; i < len(prefix); i++ {
		out = append(out, prefix[i]&0x1f)
	}
	return append(out, 0)
}

// refCashEncodeSymbols appends the checksum to 5-bit payload symbols and returns the
// payload string (without prefix).
func refCashEncodeSymbols(prefix string, payload5 []byte) string {
	enc := append(refCashPrefixExpand(prefix), payload5...)
	enc = append(enc, 0, 0, 0, 0, 0, 0, 0, 0)
	mod := refCashPolymod(enc)
	var sb strings.Builder
	for _, d := range payload5 {
		sb.WriteByte(b32Charset[d])
	}
	for i := 0; i < 8; i++ {
		sb.WriteByte(b32Charset[(mod>>uint(5*(7-i)))&0x1f])
	}
	return sb.String()
}

var cashSizes = [8]int{20, 24, 28, 32, 40, 48, 56, 64}

// refCashVersion returns the version byte for (type, hash length) or -1.
func refCashVersion(typ int, hashLen int) int {
	for code, sz := range cashSizes {
		if sz == hashLen {
			return typ<<3 | code
		}
	}
	return -1
}

// refCashEncode returns the un-prefixed CashAddr string the specification prescribes
// for (prefix, type bits, hash).
func refCashEncode(prefix string, typ int, hash []byte) string {
	v := refCashVersion(typ, len(hash))
	if v < 0 {
		panic("refCashEncode: bad hash length")
	}
	data := append([]byte{byte(v)}, hash...)
	p5, _ := refConvertBits(data, 8, 5, true)
	return refCashEncodeSymbols(prefix, p5)
}

// refCashDecodeRaw verifies charset (lower-case only here), and checksum under the
// prefix; returns the 5-bit payload symbols without the checksum.
func refCashDecodeRaw(prefix, payload string) ([]byte, error) {
	if len(payload) < 8 {
		return nil, errors.New("too short")
	}
	vals := make([]byte, len(payload))
	for i := 0; i < len(payload); i++ {
		d := strings.IndexByte(b32Charset, payload[i])
		if d < 0 {
			return nil, errors.New("charset")
		}
		vals[i] = byte(d)
	}
	if refCashPolymod(append(refCashPrefixExpand(prefix), vals...)) != 0 {
		return nil, errors.New("checksum")
	}
	return vals[:len(vals)-8], nil
}

// refCashDecodeStrict is the strict acceptor of the specification: version byte
// MSB 0, size code matches the payload length, padding < 5 bits and zero.
// Returns (type bits, hash).
func refCashDecodeStrict(prefix, payload string) (int, []byte, error) {
	p5, err := refCashDecodeRaw(prefix, payload)
	if err != nil {
		return 0, nil, err
	}
	data, ok := refConvertBits(p5, 5, 8, false)
	if !ok {
		return 0, nil, errors.New("padding")
	}
	if len(data) < 1 {
		return 0, nil, errors.New("no version byte")
	}
	v := data[0]
	if v&0x80 != 0 {
		return 0, nil, errors.New("reserved bit")
	}
	if len(data)-1 != cashSizes[v&7] {
		return 0, nil, errors.New("size mismatch")
	}
	return int(v >> 3), data[1:], nil
}
