// Package harness holds the property-based checks for gcash/bchutil (see /verif/DESIGN.md).
package harness
