package harness

// C04 HD key derivation conforms to BIP32 on every seed and path.

import (
	"bytes"
	"encoding/binary"
	"fmt"
	"math/big"
	"testing"

	"github.com/gcash/bchutil/hdkeychain"
	"pgregory.net/rapid"
)

type c04Case struct {
	Seed   HexBytes `json:"seed"`
	Net    int      `json:"net"`
	SetNet int      `json:"set_net"` // -1: none; else SetNet(net) on the master before deriving
	Path   []uint32 `json:"path"`
	Tag    string   `json:"tag"`
}

// compareNode compares an implementation key with the reference key at one node.
func compareNode(k *hdkeychain.ExtendedKey, r *refKey, ni int, where string) error {
	if got, want := k.String(), r.String(); got != want {
		return fmt.Errorf("%s: String() = %s, BIP32 gives %s", where, got, want)
	}
	if k.IsPrivate() != (r.Priv != nil) {
		return fmt.Errorf("%s: IsPrivate() = %v", where, k.IsPrivate())
	}
	if k.Depth() != r.Depth {
		return fmt.Errorf("%s: Depth() = %d want %d", where, k.Depth(), r.Depth)
	}
	if got, want := k.ParentFingerprint(), binary.BigEndian.Uint32(r.ParentFP[:]); got != want {
		return fmt.Errorf("%s: ParentFingerprint() = %08x want %08x", where, got, want)
	}
	pub, err := k.ECPubKey()
	if err != nil {
		return fmt.Errorf("%s: ECPubKey failed: %v", where, err)
	}
	if !bytes.Equal(pub.SerializeCompressed(), r.pubBytes()) {
		return fmt.Errorf("%s: ECPubKey = %x want %x", where, pub.SerializeCompressed(), r.pubBytes())
	}
	if r.Priv != nil {
		priv, err := k.ECPrivKey()
		if err != nil {
			return fmt.Errorf("%s: ECPrivKey failed: %v", where, err)
		}
		if priv.D.Cmp(r.Priv) != 0 {
			return fmt.Errorf("%s: private scalar %x want %x", where, priv.D, r.Priv)
		}
	} else if _, err := k.ECPrivKey(); err != hdkeychain.ErrNotPrivExtKey {
		return fmt.Errorf("%s: ECPrivKey on a public key returned err=%v", where, err)
	}
	p := nets[ni].Params
	addr, err := k.Address(p)
	if err != nil {
		return fmt.Errorf("%s: Address failed: %v", where, err)
	}
	if got, want := addr.EncodeAddress(), refCashEncode(p.CashAddressPrefix, 0, hash160(r.pubBytes())); got != want {
		return fmt.Errorf("%s: Address(%s) = %s want %s", where, nets[ni].Name, got, want)
	}
	// the address is asked for per network: the P2PKH address of the key's public key on whichever network is
	// named, whatever the key's own version bytes say
	for _, oi := range []int{(ni + 1) % len(nets), (ni + 4) % len(nets)} {
		op := nets[oi].Params
		a2, err := k.Address(op)
		if err != nil {
			return fmt.Errorf("%s: Address(%s) on a key of %s failed: %v", where, nets[oi].Name, nets[ni].Name, err)
		}
		if got, want := a2.EncodeAddress(), refCashEncode(op.CashAddressPrefix, 0, hash160(r.pubBytes())); got != want {
			return fmt.Errorf("%s: Address(%s) on a key of %s = %s want %s", where, nets[oi].Name, nets[ni].Name, got, want)
		}
	}
	return nil
}

func evalC04(c c04Case, o *Obs) error {
	if c.Net < 0 || c.Net >= len(nets) || c.SetNet >= len(nets) {
		return hbug("bad net")
	}
	k, err := hdkeychain.NewMaster(c.Seed, nets[c.Net].Params)
	r, rerr := refMaster(c.Seed, c.Net)
	if rerr == errRefSeedLen {
		o.Class("C04:illegal-seed-length")
		o.NT()
		if err != hdkeychain.ErrInvalidSeedLen {
			return fmt.Errorf("NewMaster with a %d-byte seed: err = %v, want ErrInvalidSeedLen", len(c.Seed), err)
		}
		return nil
	}
	if rerr != nil {
		if err == nil {
			return fmt.Errorf("NewMaster accepted an unusable seed %x", []byte(c.Seed))
		}
		return nil
	}
	if err != nil {
		return fmt.Errorf("NewMaster(%x) failed: %v", []byte(c.Seed), err)
	}
	// a key is complete the moment it is returned: a fresh master derives a child / is neutered and is erased
	// at once - before anybody has looked at the new key - and the new key is everything BIP32 says
	for _, idx := range []uint32{0x80000000, 0, 0x80000000 + uint32(len(c.Seed)), uint32(len(c.Path))} {
		if m3, err := hdkeychain.NewMaster(c.Seed, nets[c.Net].Params); err == nil {
			ch, cerr := m3.Child(idx)
			rc, rerr := r.child(idx)
			m3.Zero()
			if rerr == nil && (cerr != nil || ch.String() != rc.String()) {
				return fmt.Errorf("NewMaster(%x).Child(%d), parent erased before the child was first used: child is %v (err %v), BIP32 gives %s", []byte(c.Seed), idx, ch, cerr, rc.String())
			}
			if rerr == nil {
				if err := compareNode(ch, rc, c.Net, fmt.Sprintf("child %d of a master that was erased at once", idx)); err != nil {
					return err
				}
			}
		}
	}
	if m4, err := hdkeychain.NewMaster(c.Seed, nets[c.Net].Params); err == nil {
		n4, nerr := m4.Neuter()
		m4.Zero()
		if nerr != nil {
			return fmt.Errorf("Neuter of a fresh master failed: %v", nerr)
		}
		if err := compareNode(n4, r.neuter(), c.Net, "neutered master whose private original was erased at once"); err != nil {
			return err
		}
	}
	ni := c.Net
	if c.SetNet >= 0 {
		if c.Seed[0]%2 == 1 {
			_ = k.String() // printed on its first network, then moved
			o.Class("C04:printed-before-setnet")
		}
		k.SetNet(nets[c.SetNet].Params)
		r = r.withNet(c.SetNet)
		ni = c.SetNet
		o.Class("C04:setnet")
	}
	o.Class("C04:seedlen=%d", len(c.Seed))
	o.Class("C04:net=" + nets[ni].Name)
	if len(c.Path) >= 1 {
		o.NT()
	}
	// public line: follows the path through non-hardened steps from the neutered key
	var pubK *hdkeychain.ExtendedKey
	var pubR *refKey
	sawLZ, sawLZ2 := false, false
	for step := 0; ; step++ {
		where := fmt.Sprintf("seed %x net %s path %v[:%d]", []byte(c.Seed), nets[ni].Name, c.Path, step)
		if err := compareNode(k, r, ni, where); err != nil {
			return err
		}
		n, err := k.Neuter()
		if err != nil {
			return fmt.Errorf("%s: Neuter failed: %v", where, err)
		}
		rn := r.neuter()
		if err := compareNode(n, rn, ni, where+" neutered"); err != nil {
			return err
		}
		if pubK != nil {
			// key derived purely on the public side must equal the neutered private key
			if pubK.String() != rn.String() {
				return fmt.Errorf("%s: public derivation gives %s, neutered private child is %s", where, pubK.String(), rn.String())
			}
		}
		if pad32(r.Priv)[0] == 0 {
			sawLZ = true
			o.Class("C04:node-with-leading-zero-scalar")
			if pad32(r.Priv)[1] == 0 {
				sawLZ2 = true
				o.Class("C04:node-with-two-leading-zero-bytes")
			}
		}
		// one key object derives a normal child first and a hardened child afterwards (and the other way round on a
		// second object): the order of earlier derivations must not matter
		if r.Depth < 255 {
			for round, order := range [][2]uint32{{7, 0x80000007}, {0x80000007, 7}} {
				obj := k
				if round == 1 {
					if obj, err = hdkeychain.NewKeyFromString(k.String()); err != nil {
						return fmt.Errorf("%s: re-parse failed: %v", where, err)
					}
				}
				var sibs []*hdkeychain.ExtendedKey
				var sibWant []string
				for _, idx := range order {
					got, err := obj.Child(idx)
					want, rerr := r.child(idx)
					if rerr != nil {
						continue
					}
					if err != nil || got.String() != want.String() {
						return fmt.Errorf("%s: Child(%d) derived from an object that had derived %v before = %v (err %v), BIP32 gives %s", where, idx, order, got, err, want.String())
					}
					sibs, sibWant = append(sibs, got), append(sibWant, want.String())
				}
				// ... and a child stays what it is when its siblings are derived after it
				for i, sk := range sibs {
					if sk.String() != sibWant[i] {
						return fmt.Errorf("%s: child %d of %v serialises as %s after a later sibling was derived, BIP32 gives %s", where, i, order, sk.String(), sibWant[i])
					}
				}
			}
		}
		// a neutered key handed out earlier may be changed or erased by its owner; later Neuter() calls are unaffected
		n.SetNet(nets[(ni+1)%len(nets)].Params)
		if step == 0 && r.Priv != nil {
			// ... nor may re-netting a private key: a fresh master on the original network is what it was
			if k2, err := hdkeychain.NewMaster(c.Seed, nets[c.Net].Params); err == nil {
				k2.SetNet(nets[(ni+2)%len(nets)].Params)
				if m2, err := hdkeychain.NewMaster(c.Seed, nets[c.Net].Params); err == nil {
					if c.SetNet >= 0 {
						m2.SetNet(nets[c.SetNet].Params)
					}
					if want := r.String(); m2.String() != want {
						return fmt.Errorf("%s: after SetNet on another master of the same network, NewMaster of the same seed serialises as %s, BIP32 gives %s", where, m2.String(), want)
					}
				}
			}
		}
		n.Zero()
		if n2, err := k.Neuter(); err != nil {
			return fmt.Errorf("%s: second Neuter failed: %v", where, err)
		} else if err := compareNode(n2, rn, ni, where+" neutered again after the first neutered key was re-netted and zeroed"); err != nil {
			return err
		} else {
			n = n2
		}
		if step == len(c.Path) {
			break
		}
		i := c.Path[step]
		hard := i >= 0x80000000
		ck, err := k.Child(i)
		cr, rerr := r.child(i)
		if k.Depth() == 255 {
			o.Class("C04:depth-255")
			if err != hdkeychain.ErrDeriveBeyondMaxDepth {
				return fmt.Errorf("%s: Child at depth 255 returned err=%v, want ErrDeriveBeyondMaxDepth", where, err)
			}
			if _, err := n.Child(0); err != hdkeychain.ErrDeriveBeyondMaxDepth {
				return fmt.Errorf("%s: public Child at depth 255 returned err=%v", where, err)
			}
			break
		}
		if _, err := n.Child(i | 0x80000000); err != hdkeychain.ErrDeriveHardFromPublic {
			return fmt.Errorf("%s: hardened derivation from a public key returned err=%v", where, err)
		}
		// ... also when it comes at the end of an ascending scan: the last normal index, then the first hardened one
		for _, j := range []uint32{0x7ffffffe, 0x7fffffff, 0x80000000, 0x80000001} {
			ck, err := n.Child(j)
			if j >= 0x80000000 {
				if err != hdkeychain.ErrDeriveHardFromPublic || ck != nil {
					return fmt.Errorf("%s: public Child(%#x) after Child(%#x) returned key %v, err=%v; want no key and ErrDeriveHardFromPublic", where, j, j-1, ck, err)
				}
			} else if want, rerr2 := rn.child(j); rerr2 == nil && (err != nil || ck.String() != want.String()) {
				return fmt.Errorf("%s: public Child(%#x) = %v (err %v), BIP32 gives %s", where, j, ck, err, want.String())
			}
		}
		if rerr != nil {
			return nil // invalid child (probability 2^-127): nothing to compare
		}
		if err != nil {
			return fmt.Errorf("%s: Child(%d) failed: %v", where, i, err)
		}
		if hard {
			o.Class("C04:hardened-step")
			if sawLZ {
				o.Class("C04:hardened-step-after-leading-zero-scalar")
			}
			if sawLZ2 {
				o.Class("C04:hardened-step-after-two-leading-zero-bytes")
			}
			pubK, pubR = nil, nil
		} else {
			o.Class("C04:normal-step")
			pc, err := n.Child(i)
			if err != nil {
				return fmt.Errorf("%s: public Child(%d) failed: %v", where, i, err)
			}
			pr, _ := rn.child(i)
			if pr != nil {
				if err := compareNode(pc, pr, ni, where+fmt.Sprintf(" public child %d", i)); err != nil {
					return err
				}
			}
			// the same public key object derives again: other index, then the same index
			j := (i + 1) & 0x7fffffff
			if pj, err := n.Child(j); err == nil {
				if rj, rerr := rn.child(j); rerr == nil {
					if err := compareNode(pj, rj, ni, where+fmt.Sprintf(" public child %d (second derivation from the same object)", j)); err != nil {
						return err
					}
				}
			}
			if pc2, err := n.Child(i); err != nil || pc2.String() != pc.String() {
				return fmt.Errorf("%s: deriving public child %d twice from the same key gives %v, then %v (err %v)", where, i, pc, pc2, err)
			}
			if ck2, err := k.Child(i); err != nil || ck2.String() != ck.String() {
				return fmt.Errorf("%s: deriving private child %d twice from the same key gives different keys (err %v)", where, i, err)
			} else {
				// a child that is thrown away (zeroed) takes nothing with it
				ck2.Zero()
				if pc3, err := n.Child(i); err == nil {
					pc3.Zero()
				}
				if ck.String() != cr.String() || (pr != nil && pc.String() != pr.String()) {
					return fmt.Errorf("%s: after zeroing a second copy of child %d the first copy serialises differently (%s)", where, i, ck.String())
				}
				if ck3, err := k.Child(i); err != nil || ck3.String() != cr.String() {
					return fmt.Errorf("%s: after zeroing one copy of child %d, deriving it again gives %v (err %v), BIP32 gives %s", where, i, ck3, err, cr.String())
				}
			}
			pubK, pubR = pc, pr
		}
		k, r = ck, cr
		if int(r.Depth) >= 200 {
			o.Class("C04:depth>=200")
		}
	}
	_ = pubR
	return nil
}

// refChildScalarHasLZ reports whether child i of r has a private scalar with a leading
// zero byte (cheap: no point multiplication).
func refChildScalarHasLZ(r *refKey, parentPub []byte, i uint32, zeroBytes int) bool {
	var data []byte
	if i >= 0x80000000 {
		data = append([]byte{0}, pad32(r.Priv)...)
	} else {
		data = append([]byte{}, parentPub...)
	}
	var ib [4]byte
	binary.BigEndian.PutUint32(ib[:], i)
	I := hmac512(r.Chain[:], append(data, ib[:]...))
	il := new(big.Int).SetBytes(I[:32])
	if il.Cmp(curveN) >= 0 {
		return false
	}
	ck := il.Add(il, r.Priv)
	ck.Mod(ck, curveN)
	return ck.BitLen() <= 256-8*zeroBytes && ck.Sign() != 0
}

func genIndex(t *rapid.T) uint32 {
	switch rapid.IntRange(0, 7).Draw(t, "idx_cls") {
	case 0:
		return rapid.SampledFrom([]uint32{0, 1, 0x7fffffff, 0x80000000, 0x80000001, 0xffffffff}).Draw(t, "idx_b")
	case 1, 2:
		return uint32(rapid.IntRange(0, 50).Draw(t, "idx_small"))
	case 3, 4:
		return 0x80000000 + uint32(rapid.IntRange(0, 50).Draw(t, "idx_hsmall"))
	default:
		return rapid.Uint32().Draw(t, "idx")
	}
}

func genC04(t *rapid.T) c04Case {
	c := c04Case{Net: genNet(t), SetNet: -1}
	if rapid.IntRange(0, 4).Draw(t, "setnet") == 0 {
		c.SetNet = genNet(t)
	}
	switch rapid.IntRange(0, 19).Draw(t, "seed_cls") {
	case 0: // illegal lengths
		n := rapid.SampledFrom([]int{0, 1, 15, 65, 66, 80, 128, 255, 256, 257, 271, 272, 288, 320, 512, 528, 544, 1024, 1040}).Draw(t, "badlen")
		c.Seed = genBytesN(t, "seed", n)
		c.Tag = "illegal-seed"
		return c
	default:
		c.Seed = genBytes(t, "seed", 16, 64)
	}
	n := rapid.IntRange(0, 8).Draw(t, "pathlen")
	for i := 0; i < n; i++ {
		c.Path = append(c.Path, genIndex(t))
	}
	if rapid.IntRange(0, 3).Draw(t, "directed") == 0 {
		// directed search: a sibling whose scalar has a leading zero byte, then a
		// hardened step and a normal step through it
		r, err := refMaster(c.Seed, c.Net)
		if err == nil {
			ok := true
			for _, i := range c.Path {
				if r, err = r.child(i); err != nil {
					ok = false
					break
				}
			}
			if ok {
				start := rapid.Uint32().Draw(t, "lz_start")
				pub := r.pubBytes()
				// usually one leading zero byte (1 in 256); sometimes two (1 in 65536 - the
				// case a "pad with a single zero byte" regression needs)
				zb, tries := 1, uint32(3000)
				if rapid.IntRange(0, 5).Draw(t, "lz2") == 0 {
					zb, tries = 2, 400000
				}
				for d := uint32(0); d < tries; d++ {
					if refChildScalarHasLZ(r, pub, start+d, zb) {
						c.Path = append(c.Path, start+d, 0x80000000+uint32(rapid.IntRange(0, 3).Draw(t, "h")), genIndex(t))
						c.Tag = fmt.Sprintf("directed-%d-leading-zero-bytes", zb)
						break
					}
				}
			}
		}
	}
	return c
}

var kC04 = register(&Kind[c04Case]{Prop: "C04", Name: "derive", Gen: genC04, Eval: evalC04})

func refSelfBIP32(ev *Ev) {
	seed := mustHex("000102030405060708090a0b0c0d0e0f")
	r, err := refMaster(seed, 0)
	if err != nil {
		ev.HarnessError("refMaster vector 1: %v", err)
		return
	}
	type step struct {
		idx        uint32
		priv, pubS string
	}
	if r.String() != "xprv9s21ZrQH143K3QTDL4LXw2F7HEK3wJUD2nW2nRk4stbPy6cq3jPPqjiChkVvvNKmPGJxWUtg6LnF5kejMRNNU3TGtRBeJgk33yuGBxrMPHi" ||
		r.neuter().String() != "xpub661MyMwAqRbcFtXgS5sYJABqqG9YLmC4Q1Rdap9gSE8NqtwybGhePY2gZ29ESFjqJoCu1Rupje8YtGqsefD265TMg7usUDFdp6W1EGMcet8" {
		ev.HarnessError("refBIP32 vector 1 master mismatch: %s", r.String())
	}
	steps := []step{
		{0x80000000, "xprv9uHRZZhk6KAJC1avXpDAp4MDc3sQKNxDiPvvkX8Br5ngLNv1TxvUxt4cV1rGL5hj6KCesnDYUhd7oWgT11eZG7XnxHrnYeSvkzY7d2bhkJ7", "xpub68Gmy5EdvgibQVfPdqkBBCHxA5htiqg55crXYuXoQRKfDBFA1WEjWgP6LHhwBZeNK1VTsfTFUHCdrfp1bgwQ9xv5ski8PX9rL2dZXvgGDnw"},
		{1, "xprv9wTYmMFdV23N2TdNG573QoEsfRrWKQgWeibmLntzniatZvR9BmLnvSxqu53Kw1UmYPxLgboyZQaXwTCg8MSY3H2EU4pWcQDnRnrVA1xe8fs", "xpub6ASuArnXKPbfEwhqN6e3mwBcDTgzisQN1wXN9BJcM47sSikHjJf3UFHKkNAWbWMiGj7Wf5uMash7SyYq527Hqck2AxYysAA7xmALppuCkwQ"},
		{0x80000002, "xprv9z4pot5VBttmtdRTWfWQmoH1taj2axGVzFqSb8C9xaxKymcFzXBDptWmT7FwuEzG3ryjH4ktypQSAewRiNMjANTtpgP4mLTj34bhnZX7UiM", "xpub6D4BDPcP2GT577Vvch3R8wDkScZWzQzMMUm3PWbmWvVJrZwQY4VUNgqFJPMM3No2dFDFGTsxxpG5uJh7n7epu4trkrX7x7DogT5Uv6fcLW5"},
		{2, "xprvA2JDeKCSNNZky6uBCviVfJSKyQ1mDYahRjijr5idH2WwLsEd4Hsb2Tyh8RfQMuPh7f7RtyzTtdrbdqqsunu5Mm3wDvUAKRHSC34sJ7in334", "xpub6FHa3pjLCk84BayeJxFW2SP4XRrFd1JYnxeLeU8EqN3vDfZmbqBqaGJAyiLjTAwm6ZLRQUMv1ZACTj37sR62cfN7fe5JnJ7dh8zL4fiyLHV"},
		{1000000000, "xprvA41z7zogVVwxVSgdKUHDy1SKmdb533PjDz7J6N6mV6uS3ze1ai8FHa8kmHScGpWmj4WggLyQjgPie1rFSruoUihUZREPSL39UNdE3BBDu76", "xpub6H1LXWLaKsWFhvm6RVpEL9P4KfRZSW7abD2ttkWP3SSQvnyA8FSVqNTEcYFgJS2UaFcxupHiYkro49S8yGasTvXEYBVPamhGW6cFJodrTHy"},
	}
	for _, s := range steps {
		prev := r
		r, err = r.child(s.idx)
		if err != nil || r.String() != s.priv || r.neuter().String() != s.pubS {
			ev.HarnessError("refBIP32 vector 1 mismatch at index %d", s.idx)
			return
		}
		if s.idx < 0x80000000 {
			pc, err := prev.neuter().child(s.idx)
			if err != nil || pc.String() != s.pubS {
				ev.HarnessError("refBIP32 vector 1 public derivation mismatch at index %d", s.idx)
			}
		}
	}
	// vector 3 (leading zeros are retained)
	r3, err := refMaster(mustHex("4b381541583be4423346c643850da4b320e46a87ae3d2a4e6da11eba819cd4acba45d239319ac14f863b8d5ab5a0d0c64d2e8a1e7d1457df2e5a3c51c73235be"), 0)
	if err != nil || r3.String() != "xprv9s21ZrQH143K25QhxbucbDDuQ4naNntJRi4KUfWT7xo4EKsHt2QJDu7KXp1A3u7Bi1j8ph3EGsZ9Xvz9dGuVrtHHs7pXeTzjuxBrCmmhgC6" {
		ev.HarnessError("refBIP32 vector 3 master mismatch")
		return
	}
	c3, err := r3.child(0x80000000)
	if err != nil || c3.String() != "xprv9uPDJpEQgRQfDcW7BkF7eTya6RPxXeJCqCJGHuCJ4GiRVLzkTXBAJMu2qaMWPrS7AANYqdq6vcBcBUdJCVVFceUvJFjaPdGZ2y9WACViL4L" {
		ev.HarnessError("refBIP32 vector 3 m/0H mismatch")
	}
	// parser accepts its own output
	if p, err := refParseExtKey(c3.String()); err != nil || p.String() != c3.String() {
		ev.HarnessError("refParseExtKey round trip: %v", err)
	}
}

// ---- kind: crafted parents ----------------------------------------------------------------------
// Keys reached from seeds have uniformly random scalars and chain codes; the arithmetic of a derivation step
// (scalar addition modulo n, point addition, serialisation) has its corner cases where machine words are all
// ones or zero and carries run across them.  Parents with such scalars are built directly (NewExtendedKey) and
// every kind of child is compared with the reference, private route against public route included.

type c04Crafted struct {
	Scalar HexBytes `json:"scalar"` // 32 bytes, in [1, n-1]
	Chain  HexBytes `json:"chain"`  // 32 bytes
	Idx    []uint32 `json:"indices"`
	Net    int      `json:"net"`
}

func evalC04Crafted(c c04Crafted, o *Obs) error {
	if len(c.Scalar) != 32 || len(c.Chain) != 32 || c.Net < 0 || c.Net >= len(nets) {
		return hbug("bad crafted parent")
	}
	k := new(big.Int).SetBytes(c.Scalar)
	if k.Sign() == 0 || k.Cmp(curveN) >= 0 {
		return hbug("scalar out of range")
	}
	p := nets[c.Net].Params
	r := &refKey{Version: p.HDPrivateKeyID, Depth: 3, ChildNum: 7, Priv: k}
	copy(r.Chain[:], c.Chain)
	copy(r.ParentFP[:], []byte{1, 2, 3, 4})
	r.X, r.Y = pubPoint(c.Scalar)
	key := hdkeychain.NewExtendedKey(append([]byte{}, p.HDPrivateKeyID[:]...), append([]byte{}, c.Scalar...), append([]byte{}, c.Chain...), []byte{1, 2, 3, 4}, 3, 7, true)
	o.NT()
	o.Class("C04:crafted-parent")
	if err := compareNode(key, r, c.Net, "crafted parent"); err != nil {
		return err
	}
	pubKey, err := key.Neuter()
	if err != nil {
		return fmt.Errorf("crafted parent: Neuter failed: %v", err)
	}
	rn := r.neuter()
	for _, i := range c.Idx {
		want, rerr := r.child(i)
		got, err := key.Child(i)
		if rerr != nil {
			continue
		}
		where := fmt.Sprintf("crafted parent (scalar %x, chain code %x).Child(%d)", []byte(c.Scalar), []byte(c.Chain), i)
		if err != nil {
			return fmt.Errorf("%s failed: %v", where, err)
		}
		if err := compareNode(got, want, c.Net, where); err != nil {
			return err
		}
		if i < 0x80000000 { // the public route arrives at the neutered private child
			gp, err := pubKey.Child(i)
			wp, _ := rn.child(i)
			if err != nil || wp == nil {
				return fmt.Errorf("%s by the public route failed: %v", where, err)
			}
			if err := compareNode(gp, wp, c.Net, where+" (public route)"); err != nil {
				return err
			}
		}
	}
	return nil
}

var kC04Crafted = register(&Kind[c04Crafted]{Prop: "C04", Name: "crafted-parent", Eval: evalC04Crafted,
	Gen: func(t *rapid.T) c04Crafted {
		c := c04Crafted{Scalar: genScalar(t, "k"), Chain: genBytesN(t, "chain", 32), Net: genNet(t)}
		for n := rapid.IntRange(2, 8).Draw(t, "nidx"); n > 0; n-- {
			c.Idx = append(c.Idx, genIndex(t))
		}
		return c
	}})

func TestC04(t *testing.T) {
	propTest(t, "C04", func(ev *Ev) {
		ev.Rule("seed (16..64 bytes, biased; plus illegal lengths) x network (and SetNet) x path (0..11 steps usually; indices from "+
			"{0,1,2^31-1,2^31,2^31+1,2^32-1,small,uniform}); a quarter of the cases extend the path by a directed search (with the "+
			"reference) for a sibling whose private scalar has a leading zero byte, followed by a hardened and a further step; "+
			"three fixed paths of depth 255. At every node the private key, its neutered form and (on non-hardened steps) the "+
			"publicly derived child are compared with an independent BIP32 implementation: serialisation, scalar, compressed "+
			"point, depth, parent fingerprint, address; error cases as documented. Non-trivial = path length >= 1 or illegal seed.",
			"HMAC-SHA512/SHA256/RIPEMD160 from the Go standard library and x/crypto", "bchec point multiplication and addition (shared with the implementation)",
			"ErrInvalidChild / unusable-seed branches (probability 2^-127) are unreachable by generation")
		refSelfCodecs(ev)
		refSelfBIP32(ev)
		if len(ev.harnessErrors) > 0 {
			return
		}
		// deep paths (depth 255) - three deterministic shapes, shard 0 only
		if shard == 0 {
			for v := 0; v < 3; v++ {
				c := c04Case{Seed: bytes.Repeat([]byte{byte(v + 1)}, 16+v*24), Net: v * 2 % len(nets), SetNet: -1, Tag: "depth-255"}
				for d := 0; d < 256; d++ {
					switch v {
					case 0:
						c.Path = append(c.Path, uint32(d))
					case 1:
						c.Path = append(c.Path, 0x80000000+uint32(d))
					default:
						c.Path = append(c.Path, uint32(d%2)*0x80000000+uint32(d*d))
					}
				}
				kC04.One(ev, c)
			}
		}
		// deterministic directed cases: children whose scalar has two leading zero bytes (hardened and normal),
		// followed by hardened and normal steps - found with the reference (about 65536 HMACs each)
		if shard == 0 {
			seed := bytes.Repeat([]byte{0x5a}, 32)
			if r, err := refMaster(seed, 0); err == nil {
				pub := r.pubBytes()
				for _, base := range []uint32{0, 0x80000000} {
					for d := uint32(0); d < 600000; d++ {
						if refChildScalarHasLZ(r, pub, base+d, 2) {
							kC04.One(ev, c04Case{Seed: seed, Net: 0, SetNet: -1, Path: []uint32{base + d, 0x80000000, 1, 0x80000001}, Tag: "two-leading-zero-bytes"})
							kC04.One(ev, c04Case{Seed: seed, Net: 1, SetNet: -1, Path: []uint32{base + d, 7, 0xffffffff}, Tag: "two-leading-zero-bytes"})
							break
						}
					}
				}
			}
		}
		kC04.Run(t, ev, perShard(pick(600, 200000)))
		kC04Crafted.Run(t, ev, perShard(pick(1200, 300000)))
		ev.requireClasses("C04:illegal-seed-length", "C04:depth-255", "C04:hardened-step", "C04:normal-step",
			"C04:hardened-step-after-leading-zero-scalar", "C04:hardened-step-after-two-leading-zero-bytes", "C04:setnet", "C04:net=simnet", "C04:seedlen=16", "C04:seedlen=64")
	})
}
