#!/usr/bin/env python3
"""Process one sub-agent mutant: verify it (suite passes / demo fails with it / demo passes without),
run the property's quick (and, if missed, thorough) check against it, and file it under /verif/seeded/.
  seed.py <PROP> <m1|m2> [--thorough]
"""
import json, os, shutil, subprocess, sys, time
VERIF = os.path.dirname(os.path.dirname(os.path.abspath(__file__)))
prop, m = sys.argv[1], sys.argv[2]
rnd = "seed"
if "--round" in sys.argv:
    rnd = sys.argv[sys.argv.index("--round") + 1]
src = "/tmp/%s/%s-out" % (rnd, prop)
patch, demo = os.path.join(src, m + ".diff"), os.path.join(src, m + "_demo_test.go")
def run(cmd):
    p = subprocess.run(cmd, stdout=subprocess.PIPE, stderr=subprocess.STDOUT, text=True)
    return p.returncode, p.stdout
race = ["--race"] if "--race" in sys.argv else []  # the demonstration needs the race detector
rc, vout = run([os.path.join(VERIF, "tools/mutant.py"), "verify", patch, demo] + race)
print(vout)
verified = rc == 0
results = {}
if verified:
    for tier in (["quick"] + (["thorough"] if "--thorough" in sys.argv else [])):
        t0 = time.time()
        rc, out = run([os.path.join(VERIF, "tools/mutant.py"), "check", prop, patch, "--tier", tier])
        print(out)
        results[tier] = {"rc": rc, "verdict": {0: "MISSED", 1: "CAUGHT", 2: "INCONCLUSIVE"}.get(rc, str(rc)),
                         "wall_s": round(time.time() - t0, 1),
                         "first_violation": next((l.strip()[:300] for l in out.splitlines() if l.strip().startswith("kind=")), "")}
        if rc == 1:
            break
dst = os.path.join(VERIF, "seeded", "%s-%s%s" % (prop, {"seed": "", "seed2": "r2", "seed3": "r3", "seed4": "r4", "seed5": "r5", "seed6": "r6", "seed7": "r7", "seed8": "r8", "seed9": "r9", "seed10": "r10", "seed11": "r11", "seed12": "r12", "seed13": "r13", "seed14": "r14"}.get(rnd, rnd), m))
os.makedirs(dst, exist_ok=True)
shutil.copy(patch, os.path.join(dst, "patch.diff"))
shutil.copy(demo, os.path.join(dst, "demo_test.go"))
notes = ""
if os.path.exists(os.path.join(src, "NOTES.md")):
    notes = open(os.path.join(src, "NOTES.md")).read()
    shutil.copy(os.path.join(src, "NOTES.md"), os.path.join(dst, "NOTES.md"))
meta = {"property": prop, "mutant": m, "origin": "independent sub-agent given only the property text and a scratch worktree" + ("" if rnd == "seed" else " (later round: also told which regressions the earlier rounds had produced)"),
        "verified": verified, "verification": vout.strip().splitlines(),
        "what_i_ran": ["tools/mutant.py verify patch.diff demo_test.go" + (" --race" if race else ""), "tools/mutant.py check %s patch.diff --tier quick" % prop],
        "check_results": results}
json.dump(meta, open(os.path.join(dst, "meta.json"), "w"), indent=1)
print("SEED %s-%s verified=%s %s" % (prop, m, verified, {k: v["verdict"] for k, v in results.items()}))
