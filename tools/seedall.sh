#!/bin/sh
# process every sub-agent mutant that has its files and has not been filed yet
cd /verif
for d in /tmp/seed/C*-out; do
  p=$(basename $d -out)
  for m in m1 m2; do
    if [ -f $d/$m.diff ] && [ -f $d/${m}_demo_test.go ] && [ -f $d/NOTES.md ] && [ ! -f seeded/$p-$m/meta.json ]; then
      python3 tools/seed.py $p $m > /tmp/seedproc-$p-$m.log 2>&1
      tail -1 /tmp/seedproc-$p-$m.log
    fi
  done
done
