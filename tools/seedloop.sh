#!/bin/sh
# usage: seedloop.sh <round dir name, e.g. seed3> <tag, e.g. r3>   - files every finished sub-agent mutant of that round
cd "$(dirname "$0")/.."
rnd=$1; tag=$2
while true; do
  for d in /tmp/$rnd/C*-out; do
    p=$(basename $d -out)
    for m in m1 m2 m3 m4; do
      if [ -f $d/$m.diff ] && [ -f $d/${m}_demo_test.go ] && [ -f $d/NOTES.md ] && [ ! -f seeded/$p-$tag$m/meta.json ]; then
        python3 tools/seed.py $p $m --round $rnd > /tmp/seedproc-$rnd-$p-$m.log 2>&1
        tail -1 /tmp/seedproc-$rnd-$p-$m.log
      fi
    done
  done
  sleep 45
done
