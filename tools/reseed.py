#!/usr/bin/env python3
"""Re-run the current quick checks against every filed sub-agent mutant and update meta.json
(keeps the verdict of the first version of the checks under 'initial_verdict')."""
import json, os, subprocess, sys, time
VERIF = os.path.dirname(os.path.dirname(os.path.abspath(__file__)))
INITIAL_MISSED = {"C01-m1", "C03-m2", "C04-m1", "C05-m1", "C08-m1", "C09-m1", "C16-m2", "C18-m2", "C20-m1", "C20-m2",
                  # second round (verdict of the checks as they were when that round's changes arrived)
                  "C02-r2m2", "C03-r2m1", "C04-r2m1", "C04-r2m2", "C05-r2m2", "C11-r2m1", "C11-r2m2", "C12-r2m2",
                  "C16-r2m2", "C18-r2m2", "C20-r2m1",
                  # third round (stateful / cross-call / cross-object / concurrency changes were asked for)
                  "C01-r3m1", "C01-r3m2", "C02-r3m1", "C02-r3m2", "C03-r3m1", "C03-r3m2", "C04-r3m1", "C06-r3m1", "C07-r3m2",
                  "C08-r3m1", "C09-r3m1", "C11-r3m1", "C11-r3m2", "C12-r3m1", "C12-r3m2", "C13-r3m2", "C14-r3m1", "C14-r3m2",
                  "C15-r3m2", "C16-r3m1", "C16-r3m2", "C17-r3m2", "C18-r3m2", "C19-r3m2", "C20-r3m1", "C20-r3m2",
                  # fourth round
                  "C01-r4m2", "C02-r4m2", "C03-r4m1", "C04-r4m1", "C04-r4m2", "C06-r4m1", "C06-r4m2", "C08-r4m2", "C09-r4m1",
                  "C10-r4m1", "C14-r4m1", "C16-r4m2", "C18-r4m2", "C20-r4m1", "C20-r4m2",
                  # fifth round
                  "C02-r5m2", "C03-r5m1", "C03-r5m2", "C04-r5m2", "C10-r5m1", "C10-r5m2", "C11-r5m2", "C13-r5m1", "C13-r5m2",
                  "C14-r5m2", "C15-r5m2", "C16-r5m2", "C18-r5m2", "C19-r5m1",
                  # sixth round (four small single-site changes per property)
                  "C02-r6m1", "C02-r6m4", "C03-r6m1", "C03-r6m4", "C04-r6m2", "C07-r6m1", "C18-r6m3",
                  # seventh round (three changes per property aimed at what harnesses overlook)
                  "C02-r7m2", "C05-r7m2", "C06-r7m1", "C08-r7m1", "C08-r7m2", "C09-r7m1", "C09-r7m2", "C09-r7m3", "C10-r7m3",
                  "C11-r7m1", "C11-r7m3", "C12-r7m1", "C12-r7m2", "C12-r7m3", "C13-r7m1", "C13-r7m2", "C13-r7m3", "C14-r7m2",
                  "C14-r7m3", "C15-r7m2", "C15-r7m3", "C16-r7m1", "C16-r7m2", "C16-r7m3", "C17-r7m2", "C18-r7m1", "C18-r7m2",
                  "C19-r7m1", "C19-r7m3", "C20-r7m2", "C20-r7m3",
                  # eighth round
                  "C01-r8m3", "C02-r8m1", "C02-r8m3", "C03-r8m2", "C04-r8m3", "C06-r8m2", "C06-r8m3", "C07-r8m2", "C08-r8m2",
                  "C09-r8m1", "C10-r8m1", "C10-r8m2", "C12-r8m1", "C12-r8m2", "C13-r8m1", "C13-r8m3", "C14-r8m2", "C15-r8m1",
                  "C16-r8m2", "C16-r8m3", "C18-r8m3", "C19-r8m1", "C19-r8m3", "C20-r8m1", "C20-r8m2", "C20-r8m3",
                  # ninth round (refactorings gone slightly wrong)
                  "C03-r9m1", "C03-r9m3", "C04-r9m1", "C04-r9m3", "C05-r9m2", "C06-r9m2", "C08-r9m2", "C10-r9m1", "C15-r9m1",
                  "C20-r9m1",
                  # tenth round (data-dependent rarities)
                  "C01-r10m2", "C01-r10m3", "C02-r10m2", "C02-r10m3", "C04-r10m1", "C04-r10m3", "C05-r10m2", "C05-r10m3", "C06-r10m2",
                  "C06-r10m3", "C07-r10m2", "C08-r10m1", "C09-r10m1", "C09-r10m2", "C09-r10m3", "C10-r10m3", "C11-r10m1", "C11-r10m2",
                  "C11-r10m3", "C12-r10m1", "C12-r10m2", "C13-r10m2", "C14-r10m2", "C15-r10m1", "C15-r10m2", "C16-r10m1", "C16-r10m2",
                  "C18-r10m3", "C19-r10m2",
                  # eleventh round (the least-touched cells of each property)
                  "C01-r11m1", "C02-r11m1", "C02-r11m2", "C03-r11m1", "C03-r11m2", "C03-r11m3", "C04-r11m1", "C04-r11m3", "C05-r11m3",
                  "C06-r11m1", "C08-r11m1", "C09-r11m1", "C10-r11m2", "C15-r11m2", "C15-r11m3", "C16-r11m1", "C16-r11m3", "C17-r11m1",
                  "C20-r11m1", "C20-r11m3",
                  # twelfth round (feature additions and reworked bug fixes)
                  "C02-r12m3", "C03-r12m1", "C03-r12m2", "C03-r12m3", "C04-r12m1", "C05-r12m2", "C05-r12m3", "C09-r12m1", "C09-r12m3",
                  "C10-r12m1", "C10-r12m2", "C10-r12m3", "C11-r12m1", "C12-r12m3", "C13-r12m1", "C13-r12m3", "C14-r12m3", "C15-r12m2",
                  "C16-r12m2", "C16-r12m3", "C18-r12m3", "C20-r12m1", "C20-r12m3",
                  # thirteenth round (hardening gone wrong, internal parallelism / batching)
                  "C02-r13m2", "C02-r13m3", "C04-r13m3", "C05-r13m2", "C06-r13m2", "C07-r13m1", "C07-r13m3", "C08-r13m1", "C08-r13m2",
                  "C08-r13m3", "C09-r13m2", "C10-r13m1", "C10-r13m3", "C12-r13m1", "C12-r13m3", "C14-r13m1", "C15-r13m1", "C15-r13m3",
                  "C16-r13m3", "C18-r13m2", "C20-r13m3",
                  # fourteenth round (free style: most likely to escape)
                  "C02-r14m1", "C05-r14m1", "C06-r14m1", "C06-r14m2", "C07-r14m2", "C08-r14m1", "C09-r14m1", "C10-r14m1", "C11-r14m1",
                  "C12-r14m1", "C13-r14m1", "C14-r14m1", "C15-r14m1", "C17-r14m1", "C19-r14m1"}
# --seed N: run at another VERIF_SEED and only print the verdicts (meta.json untouched) - finds catches that depend on luck
args = sys.argv[1:]
seed = None
if "--seed" in args:
    i = args.index("--seed")
    seed = args[i + 1]
    del args[i:i + 2]
only = set(args)
for name in sorted(os.listdir(os.path.join(VERIF, "seeded"))):
    d = os.path.join(VERIF, "seeded", name)
    mf = os.path.join(d, "meta.json")
    if not os.path.exists(mf) or (only and name not in only):
        continue
    meta = json.load(open(mf))
    if meta.get("superseded"):
        print(name, "SKIPPED (superseded: see meta.json)", flush=True)
        continue
    if meta.get("unreached"):
        print(name, "UNREACHED (documented limit: see meta.json)", flush=True)
        continue
    prop = meta.get("checked_by", meta["property"])
    t0 = time.time()
    p = subprocess.run([os.path.join(VERIF, "tools/mutant.py"), "check", prop, os.path.join(d, "patch.diff"), "--tier", "quick"] + (["--seed", seed] if seed else []),
                       stdout=subprocess.PIPE, stderr=subprocess.STDOUT, text=True)
    verdict = {0: "MISSED", 1: "CAUGHT", 2: "INCONCLUSIVE"}.get(p.returncode, str(p.returncode))
    if seed:
        print(name, verdict, "seed=" + seed, flush=True)
        continue
    meta["initial_verdict"] = ("MISSED by the version of the check that existed when this change arrived; the check was strengthened afterwards"
                               if name in INITIAL_MISSED else "CAUGHT by the version of the check that existed when this change arrived")
    if name == "C20-m1":
        meta["initial_verdict"] = "caught only intermittently by the first version of the check (schedule dependent); strengthened afterwards"
    meta["check_results"] = {"quick": {"rc": p.returncode, "verdict": verdict, "wall_s": round(time.time() - t0, 1),
                                        "first_violation": next((l.strip()[:300] for l in p.stdout.splitlines() if l.strip().startswith("kind=")), "")}}
    json.dump(meta, open(mf, "w"), indent=1)
    print(name, verdict, flush=True)
