#!/usr/bin/env python3
"""Self-made sensitivity mutants (the "would be caught" lists of DESIGN.md section 4).

Each entry: (property, name, file, old, new).  For every entry a scratch worktree of
/repo is created under /tmp, the replacement applied, the existing suite run (a mutant
the suite already catches is reported as SUITE-KILLS and skipped), and the property's
quick check run against it with VERIF_REPO.  Results go to stdout and
/verif/mutants/RESULTS.txt; the patches to /verif/mutants/<prop>-<name>.diff.

  selfmutants.py [PROP ...]
"""
import hashlib, os, shutil, subprocess, sys, tempfile

VERIF = os.path.dirname(os.path.dirname(os.path.abspath(__file__)))
ENV = dict(os.environ, GOFLAGS="-mod=mod", GOPROXY="off", GOSUMDB="off", GOTOOLCHAIN="local")

M = [
    # ---- C01
    ("C01", "slp-keeps-cash-prefix", "address.go",
     "func NewSlpAddressScriptHashFromHash(scriptHash []byte, net *chaincfg.Params) (*AddressScriptHash, error) {\n\taddr, err := newAddressScriptHashFromHash(scriptHash, net)\n\tif addr != nil {\n\t\taddr.prefix = net.SlpAddressPrefix",
     "func NewSlpAddressScriptHashFromHash(scriptHash []byte, net *chaincfg.Params) (*AddressScriptHash, error) {\n\taddr, err := newAddressScriptHashFromHash(scriptHash, net)\n\tif addr != nil && net.Net != 0xf4f3e5f4 {\n\t\taddr.prefix = net.SlpAddressPrefix"),
    ("C01", "legacy-p2sh-uses-p2pkh-id-on-simnet", "address.go",
     "\treturn newLegacyAddressScriptHashFromHash(scriptHash, net.LegacyScriptHashAddrID)\n}\n\n// newLegacyAddressScriptHashFromHash",
     "\tid := net.LegacyScriptHashAddrID\n\tif id == 0x7b {\n\t\tid = net.LegacyPubKeyHashAddrID\n\t}\n\treturn newLegacyAddressScriptHashFromHash(scriptHash, id)\n}\n\n// newLegacyAddressScriptHashFromHash"),
    ("C01", "p2sh32-script-hashed-with-hash160", "address.go",
     "\tscriptHash := Hash256(serializedScript)\n\treturn newAddressScriptHash32FromHash(scriptHash, net)",
     "\tscriptHash := append(Hash160(serializedScript), make([]byte, 12)...)\n\treturn newAddressScriptHash32FromHash(scriptHash, net)"),
    # ---- C02
    ("C02", "padding-check-dropped", "address.go",
     "\t} else if bits >= fromBits || ((acc<<(tobits-bits))&maxv) != 0 {",
     "\t} else if bits >= fromBits {"),
    ("C02", "legacy-isfornet-always-true", "address.go",
     "func (a *LegacyAddressScriptHash) IsForNet(net *chaincfg.Params) bool {\n\treturn a.netID == net.LegacyScriptHashAddrID",
     "func (a *LegacyAddressScriptHash) IsForNet(net *chaincfg.Params) bool {\n\treturn a.netID == net.LegacyScriptHashAddrID || a.netID == 0xc4"),
    ("C02", "p2sh32-version-0x0a-accepted", "address.go",
     "\tcase data[0] == 0x0b && len(data) == 1+sha256.Size:",
     "\tcase data[0]|1 == 0x0b && len(data) == 1+sha256.Size:"),
    # ---- C03
    ("C03", "cashaddr-generator-term-changed", "address.go",
     "\t\t\tc ^= 0x1e4f43e470", "\t\t\tc ^= 0x1e4f43e471"),
    ("C03", "bech32-verify-masks-low-bits", "bech32/bech32.go",
     "\treturn bech32Polymod(concat) == 1", "\treturn bech32Polymod(concat)&0x3ffffff0 == 0"),
    ("C03", "cashaddr-verify-skips-top-bits", "address.go",
     "\treturn polyMod(cat(expandPrefix(prefix), payload)) == 0", "\treturn polyMod(cat(expandPrefix(prefix), payload))&0x7ffffffff == 0"),
    # ---- C04
    ("C04", "child-scalar-not-padded", "hdkeychain/extendedkey.go",
     "\t\tif len(childKey) < 32 {", "\t\tif len(childKey) < 31 {"),
    ("C04", "hardened-threshold-gt", "hdkeychain/extendedkey.go",
     "\tisChildHardened := i >= HardenedKeyStart", "\tisChildHardened := i > HardenedKeyStart"),
    ("C04", "setnet-public-gets-private-id", "hdkeychain/extendedkey.go",
     "\t\tk.version = net.HDPublicKeyID[:]", "\t\tk.version = net.HDPrivateKeyID[:]"),
    # ---- C05
    ("C05", "checksum-compares-3-bytes", "hdkeychain/extendedkey.go",
     "\tif !bytes.Equal(checkSum, expectedCheckSum) {", "\tif !bytes.Equal(checkSum[:3], expectedCheckSum[:3]) {"),
    ("C05", "scalar-n-accepted", "hdkeychain/extendedkey.go",
     "\t\tif keyNum.Cmp(bchec.S256().N) >= 0 || keyNum.Sign() == 0 {\n\t\t\treturn nil, ErrUnusableSeed",
     "\t\tif keyNum.Cmp(bchec.S256().N) > 0 || keyNum.Sign() == 0 {\n\t\t\treturn nil, ErrUnusableSeed"),
    # ---- C06
    ("C06", "compress-marker-not-checked", "wif.go",
     "\t\tif decoded[33] != compressMagic {\n\t\t\treturn nil, ErrMalformedPrivateKey\n\t\t}", "\t\t_ = compressMagic"),
    ("C06", "checksum-first-3-bytes", "wif.go",
     "\tif !bytes.Equal(cksum, decoded[decodedLen-4:]) {", "\tif !bytes.Equal(cksum[:3], decoded[decodedLen-4:decodedLen-1]) {"),
    # ---- C07
    ("C07", "checkdecode-min-length-4", "base58/base58check.go",
     "\tif len(decoded) < 5 {", "\tif len(decoded) < 4 {"),
    ("C07", "bech32-limit-91", "bech32/bech32.go",
     "\tif len(bech) < 8 || len(bech) > 90 {", "\tif len(bech) < 8 || len(bech) > 91 {"),
    ("C07", "convertbits-padding-check-weakened", "bech32/bech32.go",
     "\tif filledBits > 0 && (filledBits > 4 || nextByte != 0) {", "\tif filledBits > 0 && filledBits > 4 {"),
    # ---- C08
    ("C08", "wif-length-switch-relaxed", "wif.go",
     "\tcase 1 + bchec.PrivKeyBytesLen + 4:\n\t\tcompress = false\n\tdefault:\n\t\treturn nil, ErrMalformedPrivateKey",
     "\tcase 1 + bchec.PrivKeyBytesLen + 4:\n\t\tcompress = false\n\tcase 0, 1, 2:\n\t\tcompress = false\n\tdefault:\n\t\treturn nil, ErrMalformedPrivateKey"),
    ("C08", "merkle-bit-cursor-bound-dropped", "merkleblock/decode.go",
     "\tif m.bitsUsed >= uint32(len(m.bits)) {", "\tif m.bitsUsed > uint32(len(m.bits)) {"),
    # ---- C09
    ("C09", "seed-formula", "bloom/filter.go",
     "\tmm := MurmurHash3(hashNum*0xfba4c795+bf.msgFilterLoad.Tweak, data)", "\tmm := MurmurHash3((hashNum+bf.msgFilterLoad.Tweak)*0xfba4c795, data)"),
    ("C09", "murmur-tail-order", "bloom/murmurhash3.go",
     "\t\tk ^= uint32(data[tailIdx+2]) << 16", "\t\tk ^= uint32(data[tailIdx+2]) << 24"),
    ("C09", "outpoint-index-big-endian-in-add", "bloom/filter.go",
     "\tbinary.LittleEndian.PutUint32(buf[chainhash.HashSize:], outpoint.Index)\n\n\tbf.add(buf[:])",
     "\tbinary.BigEndian.PutUint32(buf[chainhash.HashSize:], outpoint.Index)\n\n\tbf.add(buf[:])"),
    # ---- C10
    ("C10", "p2pubkeyonly-also-updates-p2pkh", "bloom/filter.go",
     "\t\tif class == txscript.PubKeyTy || class == txscript.MultiSigTy {", "\t\tif class == txscript.PubKeyTy || class == txscript.MultiSigTy || class == txscript.PubKeyHashTy {"),
    ("C10", "dependants-not-rechecked", "bloom/merkleblock.go",
     "\t\t\t\tbf.checkFilterTx(dependentTx.tx, dependentTx.index, inputs)", "\t\t\t\t_ = dependentTx"),
    ("C10", "input-pushes-not-examined", "bloom/filter.go",
     "\t\tfor _, data := range pushedData {\n\t\t\tif bf.matches(data) {\n\t\t\t\treturn true\n\t\t\t}\n\t\t}",
     "\t\t_ = pushedData"),
    # ---- C11
    ("C11", "flag-bits-msb-first", "merkleblock/encode.go",
     "\t\tmsgMerkleBlock.Flags[i/8] |= m.bits[i] << (i % 8)", "\t\tmsgMerkleBlock.Flags[i/8] |= m.bits[i] << (7 - i%8)"),
    ("C11", "bloom-builder-diverges", "bloom/merkleblock.go",
     "\tif pos*2+1 < m.calcTreeWidth(height-1) {\n\t\tm.traverseAndBuild(height-1, pos*2+1)", "\tif pos*2+1 <= m.calcTreeWidth(height-1)-1 && height < 7 {\n\t\tm.traverseAndBuild(height-1, pos*2+1)"),
    # ---- C12
    ("C12", "duplicate-children-check-removed", "merkleblock/decode.go",
     "\t\tif right.IsEqual(left) {", "\t\tif right.IsEqual(left) && height > 30 {"),
    ("C12", "all-hashes-consumed-check-removed", "merkleblock/decode.go",
     "\tif m.hashesUsed != uint32(len(m.finalHashes)) {\n\t\treturn nil\n\t}", ""),
    ("C12", "count-cap-off", "merkleblock/decode.go",
     "\tif m.numTx > MaxTxnCount {", "\tif m.numTx > MaxTxnCount+1 {"),
    # ---- C13
    ("C13", "zip-early-exit", "gcs/gcs.go",
     "\t\t\tcase values[queryIndex] > value:\n\t\t\t\tcontinue out", "\t\t\tcase values[queryIndex] >= value+1<<40:\n\t\t\t\tcontinue out"),
    # ---- C14
    ("C14", "fastreduction-carry-dropped", "gcs/gcs.go",
     "\tv = vnphi + (vnpmid >> 32) + (npvmid >> 32) + carry", "\tv = vnphi + (vnpmid >> 32) + (npvmid >> 32) + carry&1"),
    ("C14", "builder-includes-empty-scripts", "gcs/builder/builder.go",
     "\t\t\tif len(txOut.PkScript) == 0 {\n\t\t\t\tcontinue\n\t\t\t}", ""),
    ("C14", "header-order-swapped", "gcs/builder/builder.go",
     "\tcopy(filterTip, filterHash[:])\n\tcopy(filterTip[chainhash.HashSize:], prevHeader[:])", "\tcopy(filterTip, prevHeader[:])\n\tcopy(filterTip[chainhash.HashSize:], filterHash[:])"),
    # ---- C15
    ("C15", "zero-skips-cached-pubkey", "hdkeychain/extendedkey.go",
     "\tzero(k.pubKey)\n", ""),
    ("C15", "child-shares-parent-chaincode-for-fp", "hdkeychain/extendedkey.go",
     "\tparentFP := bchutil.Hash160(k.pubKeyBytes())[:4]\n\treturn NewExtendedKey(k.version, childKey, childChainCode, parentFP,",
     "\tparentFP := bchutil.Hash160(k.pubKeyBytes())[:4]\n\tif k.depth == 0 && !isPrivate {\n\t\tparentFP = k.key[1:5]\n\t\tcopy(parentFP, bchutil.Hash160(k.key)[:4])\n\t}\n\treturn NewExtendedKey(k.version, childKey, childChainCode, parentFP,"),
    # ---- C16
    ("C16", "sparse-path-omits-setindex", "block.go",
     "\tnewTx := NewTx(b.msgBlock.Transactions[txNum])\n\tnewTx.SetIndex(txNum)", "\tnewTx := NewTx(b.msgBlock.Transactions[txNum])\n\tif txNum < 8 {\n\t\tnewTx.SetIndex(txNum)\n\t}"),
    ("C16", "transactions-regenerates-wrapped", "block.go",
     "\tfor i, tx := range b.transactions {\n\t\tif tx == nil {", "\tfor i, tx := range b.transactions {\n\t\tif tx == nil || i == len(b.transactions)-1 {"),
    # ---- C17
    ("C17", "precision-off-by-one-for-kilo", "amount.go",
     "\treturn strconv.FormatFloat(a.ToUnit(u), 'f', -int(u+8), 64) + units", "\tprec := -int(u + 8)\n\tif u == AmountKiloBCH {\n\t\tprec = 10\n\t}\n\treturn strconv.FormatFloat(a.ToUnit(u), 'f', prec, 64) + units"),
    ("C17", "round-truncates-negative-ties", "amount.go",
     "\treturn Amount(math.Round(f))", "\tif f < 0 {\n\t\treturn Amount(math.Ceil(f - 0.5))\n\t}\n\treturn Amount(math.Round(f))"),
    # ---- C18
    ("C18", "hash-compare-without-reversal", "txsort/txsort.go",
     "\tfor b := 0; b < hashSize/2; b++ {", "\tfor b := 0; b < hashSize/2-1; b++ {"),
    ("C18", "issorted-ignores-outputs-when-no-inputs", "txsort/txsort.go",
     "\tif !sort.IsSorted(sortableOutputSlice(tx.TxOut)) {", "\tif len(tx.TxIn) > 0 && !sort.IsSorted(sortableOutputSlice(tx.TxOut)) {"),
    # ---- C19
    ("C19", "target-predicate-gt", "coinset/coins.go",
     "\treturn (totalValue == targetValue || totalValue >= targetValue+minChange)", "\treturn (totalValue == targetValue || totalValue > targetValue+minChange)"),
    ("C19", "shift-does-not-update-valueage", "coinset/coins.go",
     "\treturn cs.removeElement(front)", "\tc := front.Value.(Coin)\n\tcs.coinList.Remove(front)\n\tcs.totalValue -= c.Value()\n\treturn c"),
    # ---- C20
    ("C20", "matchesoutpoint-without-lock", "bloom/filter.go",
     "func (bf *Filter) MatchesOutPoint(outpoint *wire.OutPoint) bool {\n\tbf.mtx.Lock()\n\tmatch := bf.matchesOutPoint(outpoint)\n\tbf.mtx.Unlock()",
     "func (bf *Filter) MatchesOutPoint(outpoint *wire.OutPoint) bool {\n\tmatch := bf.matchesOutPoint(outpoint)"),
    ("C20", "isloaded-without-lock", "bloom/filter.go",
     "\tbf.mtx.Lock()\n\tloaded := bf.msgFilterLoad != nil\n\tbf.mtx.Unlock()", "\tloaded := bf.msgFilterLoad != nil"),
]


def sh(cmd, cwd=None, env=None, timeout=3600):
    p = subprocess.run(cmd, cwd=cwd, env=env or ENV, stdout=subprocess.PIPE, stderr=subprocess.STDOUT, text=True, timeout=timeout)
    return p.returncode, p.stdout


def main():
    want = set(sys.argv[1:])
    os.makedirs(os.path.join(VERIF, "mutants"), exist_ok=True)
    results = []
    for prop, name, rel, old, new in M:
        if want and prop not in want:
            continue
        d = tempfile.mkdtemp(prefix="smut-", dir="/tmp")
        os.rmdir(d)
        sh(["git", "-C", "/repo", "worktree", "add", "-q", "--detach", d, "HEAD"])
        try:
            path = os.path.join(d, rel)
            src = open(path).read()
            if src.count(old) != 1:
                results.append((prop, name, "PATTERN-NOT-FOUND(%d)" % src.count(old)))
                print(results[-1], flush=True)
                continue
            open(path, "w").write(src.replace(old, new))
            rc, diff = sh(["git", "diff"], cwd=d)
            open(os.path.join(VERIF, "mutants", "%s-%s.diff" % (prop, name)), "w").write(diff)
            rc, out = sh(["go", "build", "./..."], cwd=d)
            if rc:
                results.append((prop, name, "DOES-NOT-BUILD " + out[-300:].replace("\n", " ")))
                print(results[-1], flush=True)
                continue
            rc, out = sh(["go", "test", "-count=1", "-vet=off", "./..."], cwd=d)
            if rc:
                results.append((prop, name, "SUITE-KILLS"))
                print(results[-1], flush=True)
                continue
            env = dict(ENV, VERIF_REPO=d)
            rc, out = sh([os.path.join(VERIF, "check"), prop, "--tier", "quick"], cwd=VERIF, env=env)
            tag = hashlib.sha1(d.encode()).hexdigest()[:8]
            for f in os.listdir(os.path.join(VERIF, ".build")):
                if tag in f:
                    try:
                        os.unlink(os.path.join(VERIF, ".build", f))
                    except OSError:
                        pass
            first = [l for l in out.splitlines() if l.strip().startswith("kind=")]
            verdict = {0: "MISSED", 1: "CAUGHT", 2: "INCONCLUSIVE"}.get(rc, "rc=%d" % rc)
            results.append((prop, name, verdict + (" " + first[0].strip()[:160] if first else "")))
            print(results[-1], flush=True)
        finally:
            sh(["git", "-C", "/repo", "worktree", "remove", "--force", d])
            shutil.rmtree(d, ignore_errors=True)
    with open(os.path.join(VERIF, "mutants", "RESULTS.txt"), "a") as f:
        for r in results:
            f.write("%s %s: %s\n" % r)
    # restore the evidence files of the unchanged tree is the caller's job (re-run the checks)


if __name__ == "__main__":
    main()
