#!/usr/bin/env python3
"""Sensitivity helper: run things against a scratch worktree of /repo with a patch applied.

  mutant.py verify <patch> <demo_test.go> [--race]     suite passes with patch, demo fails with it, demo passes without it
  mutant.py check <prop> <patch> [--tier T] [--seed N]   run ./check <prop> against the patched scratch copy

Scratch worktrees live under /tmp/mut-* and are removed afterwards.
"""
import os, re, shutil, subprocess, sys, tempfile

ENV = dict(os.environ, GOFLAGS="-mod=mod", GOPROXY="off", GOSUMDB="off", GOTOOLCHAIN="local")
VERIF = os.path.dirname(os.path.dirname(os.path.abspath(__file__)))


def sh(cmd, cwd=None, env=None, timeout=3600):
    p = subprocess.run(cmd, cwd=cwd, env=env or ENV, stdout=subprocess.PIPE, stderr=subprocess.STDOUT, text=True, timeout=timeout)
    return p.returncode, p.stdout


def worktree(patch=None):
    d = tempfile.mkdtemp(prefix="mut-", dir="/tmp")
    os.rmdir(d)
    rc, out = sh(["git", "-C", "/repo", "worktree", "add", "-q", "--detach", d, "HEAD"])
    if rc:
        raise SystemExit("worktree add failed: " + out)
    if patch:
        rc, out = sh(["git", "apply", os.path.abspath(patch)], cwd=d)
        if rc:
            remove(d)
            print("patch does not apply: " + out)
            sys.exit(3)  # not 1: callers read 1 as "the check caught the change"
    return d


def remove(d):
    sh(["git", "-C", "/repo", "worktree", "remove", "--force", d])
    shutil.rmtree(d, ignore_errors=True)
    sh(["git", "-C", "/repo", "worktree", "prune"])


def place_demo(d, demo):
    with open(demo) as f:
        first = f.readline()
    m = re.search(r"place in:\s*(\S+)", first)
    sub = m.group(1).strip("/") if m else ""
    if sub in (".", "./"):
        sub = ""
    dst = os.path.join(d, sub, "zz_" + os.path.basename(demo))
    shutil.copy(demo, dst)
    return "./" + sub if sub else "."


def verify(patch, demo, race=False):
    ok = True
    rflag = ["-race"] if race else []
    d = worktree(patch)
    try:
        rc, out = sh(["go", "build", "./..."], cwd=d)
        print("build with patch:", "ok" if rc == 0 else "FAILED\n" + out[-2000:])
        ok &= rc == 0
        rc, out = sh(["go", "test", "-count=1", "-vet=off", "./..."], cwd=d)
        print("suite with patch:", "passes" if rc == 0 else "FAILS\n" + out[-3000:])
        ok &= rc == 0
        pkg = place_demo(d, demo)
        rc, out = sh(["go", "test", "-count=1", "-vet=off"] + rflag + ["-run", "Demo|Mutant|Seed|M1|M2|Regress", pkg], cwd=d)
        if rc == 0:
            rc, out = sh(["go", "test", "-count=1", "-vet=off"] + rflag + [pkg], cwd=d)
        print("demo with patch%s:" % (" (-race)" if race else ""), "FAILS (good)" if rc != 0 else "passes (BAD)")
        ok &= rc != 0
    finally:
        remove(d)
    d = worktree(None)
    try:
        pkg = place_demo(d, demo)
        rc, out = sh(["go", "test", "-count=1", "-vet=off"] + rflag + [pkg], cwd=d)
        print("demo without patch%s:" % (" (-race)" if race else ""), "passes (good)" if rc == 0 else "FAILS (BAD)\n" + out[-3000:])
        ok &= rc == 0
    finally:
        remove(d)
    print("VERIFY", "OK" if ok else "NOT-OK")
    return 0 if ok else 1


def check(prop, patch, tier, seed):
    d = worktree(patch)
    try:
        env = dict(ENV, VERIF_REPO=d, VERIF_SEED=str(seed))
        rc, out = sh([os.path.join(VERIF, "check"), prop, "--tier", tier], cwd=VERIF, env=env, timeout=7200)
        lines = [l for l in out.splitlines() if not l.startswith("built ")]
        print("\n".join(l[:300] for l in lines[:12]))
        print("CHECK rc=%d (%s)" % (rc, {0: "MISSED", 1: "CAUGHT", 2: "inconclusive"}.get(rc, "?")))
        return rc
    finally:
        remove(d)
        tag = __import__("hashlib").sha1(d.encode()).hexdigest()[:8]
        for f in os.listdir(os.path.join(VERIF, ".build")):
            if tag in f:
                try:
                    os.unlink(os.path.join(VERIF, ".build", f))
                except OSError:
                    pass


def main():
    a = sys.argv[1:]
    if a and a[0] == "verify":
        return verify(a[1], a[2], "--race" in a)
    if a and a[0] == "check":
        tier, seed = "quick", 1
        if "--tier" in a:
            tier = a[a.index("--tier") + 1]
        if "--seed" in a:
            seed = int(a[a.index("--seed") + 1])
        return check(a[1], a[2], tier, seed)
    print(__doc__)
    return 2


if __name__ == "__main__":
    sys.exit(main())
