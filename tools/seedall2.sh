#!/bin/sh
# process every round-2 sub-agent mutant that has its files and has not been filed yet
cd /verif
for d in /tmp/seed2/C*-out; do
  p=$(basename $d -out)
  for m in m1 m2; do
    if [ -f $d/$m.diff ] && [ -f $d/${m}_demo_test.go ] && [ -f $d/NOTES.md ] && [ ! -f seeded/$p-r2$m/meta.json ]; then
      python3 tools/seed.py $p $m --round seed2 > /tmp/seedproc2-$p-$m.log 2>&1
      tail -1 /tmp/seedproc2-$p-$m.log
    fi
  done
done
